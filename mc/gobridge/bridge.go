// Package gobridge converts between refper.Node (abstract values) and the repository's ngapType Go
// values by reflection. It contains no PER logic: only structure copying, steered by the schema's names.
package gobridge

import (
	"fmt"
	"reflect"
	"strings"

	"free5gclib/aper"
	"mc/refper"
)

// NilForEmpty: a zero-length OCTET STRING becomes a nil slice instead of an empty non-nil one (both are the same ASN.1
// value; callers alternate).
var NilForEmpty bool

// EmptyOctetsSeen counts the zero-length OCTET STRINGs ToGo met (reset by the caller).
var EmptyOctetsSeen int

var (
	bitStringT = reflect.TypeOf(aper.BitString{})
	octetT     = reflect.TypeOf(aper.OctetString{})
	enumT      = reflect.TypeOf(aper.Enumerated(0))
)

// ToGo fills the Go value v (settable) of schema type typ from node n.
func ToGo(s *refper.Schema, typ string, n *refper.Node, v reflect.Value) error {
	if v.Kind() == reflect.Ptr {
		if n == nil {
			return nil
		}
		v.Set(reflect.New(v.Type().Elem()))
		return ToGo(s, typ, n, v.Elem())
	}
	if n == nil {
		return nil
	}
	switch {
	case typ == "#int":
		v.SetInt(n.I)
		return nil
	case typ == "#bool":
		v.SetBool(n.I != 0)
		return nil
	case typ == "#enum":
		v.SetUint(uint64(n.I))
		return nil
	case typ == "#bits":
		v.Set(reflect.ValueOf(aper.BitString{Bytes: append([]byte{}, n.B...), BitLength: n.NBits}))
		return nil
	case typ == "#octets":
		if len(n.B) == 0 {
			EmptyOctetsSeen++
		}
		if len(n.B) == 0 && NilForEmpty {
			v.Set(reflect.Zero(octetT)) // the zero-length value the way Go code that never assigns the field has it: a nil slice
			return nil
		}
		v.Set(reflect.ValueOf(aper.OctetString(append([]byte{}, n.B...))))
		return nil
	case typ == "#string":
		v.SetString(string(n.B))
		return nil
	case strings.HasPrefix(typ, "[]"):
		sl := reflect.MakeSlice(v.Type(), len(n.Kids), len(n.Kids))
		for i, k := range n.Kids {
			if err := ToGo(s, typ[2:], k, sl.Index(i)); err != nil {
				return err
			}
		}
		v.Set(sl)
		return nil
	}
	td, ok := s.Types[typ]
	if !ok {
		return fmt.Errorf("gobridge: unknown type %s", typ)
	}
	if v.Kind() != reflect.Struct {
		return fmt.Errorf("gobridge: %s is not a struct in Go", typ)
	}
	if td.Kind == "choice" {
		if len(n.Names) != 1 {
			return nil // unset CHOICE: Present stays 0
		}
		if n.Names[0] == "?present" { // raw Present value for negative tests
			v.Field(0).SetInt(n.Kids[0].I)
			return nil
		}
		for i, f := range td.Fields {
			if f.Name == n.Names[0] {
				fv := v.FieldByName(f.Name)
				if !fv.IsValid() {
					return fmt.Errorf("gobridge: %s has no Go field %s", typ, f.Name)
				}
				// Present = index of the Go field
				for gi := 0; gi < v.NumField(); gi++ {
					if v.Type().Field(gi).Name == f.Name {
						v.Field(0).SetInt(int64(gi))
					}
				}
				_ = i
				return ToGo(s, f.Type, n.Kids[0], fv)
			}
		}
		return fmt.Errorf("gobridge: %s has no alternative %s", typ, n.Names[0])
	}
	for i, name := range n.Names {
		var fd *refper.FieldDef
		for j := range td.Fields {
			if td.Fields[j].Name == name {
				fd = &td.Fields[j]
			}
		}
		fv := v.FieldByName(name)
		if fd == nil || !fv.IsValid() {
			return fmt.Errorf("gobridge: %s has no field %s", typ, name)
		}
		if err := ToGo(s, fd.Type, n.Kids[i], fv); err != nil {
			return err
		}
	}
	return nil
}

// FromGo converts a Go value of schema type typ into a Node. Fields the schema does not know are ignored.
func FromGo(s *refper.Schema, typ string, v reflect.Value) (*refper.Node, error) {
	if v.Kind() == reflect.Ptr {
		if v.IsNil() {
			return nil, nil
		}
		return FromGo(s, typ, v.Elem())
	}
	switch {
	case typ == "#int":
		return refper.Int(v.Int()), nil
	case typ == "#bool":
		if v.Bool() {
			return &refper.Node{Kind: "bool", I: 1}, nil
		}
		return &refper.Node{Kind: "bool"}, nil
	case typ == "#enum":
		return refper.Enum(int64(v.Uint())), nil
	case typ == "#bits":
		// normalisation (DESIGN.md 5.4): only the first BitLength bits are the value; the library's decoder leaves
		// whatever followed on the wire in the unused bits of the last octet
		bs := v.Interface().(aper.BitString)
		b := append([]byte{}, bs.Bytes...)
		if n := (bs.BitLength + 7) / 8; uint64(len(b)) >= n {
			b = b[:n]
			if bs.BitLength%8 != 0 {
				b[n-1] &= 0xff << (8 - bs.BitLength%8)
			}
		}
		return refper.Bits(b, bs.BitLength), nil
	case typ == "#octets":
		return refper.Octets(append([]byte{}, v.Bytes()...)), nil
	case typ == "#string":
		return refper.Str(v.String()), nil
	case strings.HasPrefix(typ, "[]"):
		out := &refper.Node{Kind: "list"}
		for i := 0; i < v.Len(); i++ {
			k, err := FromGo(s, typ[2:], v.Index(i))
			if err != nil {
				return nil, err
			}
			out.Kids = append(out.Kids, k)
		}
		return out, nil
	}
	td, ok := s.Types[typ]
	if !ok {
		return nil, fmt.Errorf("gobridge: unknown type %s", typ)
	}
	if td.Kind == "choice" {
		out := &refper.Node{Kind: "choice"}
		present := int(v.Field(0).Int())
		if present <= 0 || present >= v.NumField() {
			return out, nil
		}
		name := v.Type().Field(present).Name
		for _, f := range td.Fields {
			if f.Name == name {
				k, err := FromGo(s, f.Type, v.Field(present))
				if err != nil {
					return nil, err
				}
				if k == nil {
					return out, nil
				}
				out.Names, out.Kids = []string{name}, []*refper.Node{k}
			}
		}
		return out, nil
	}
	out := &refper.Node{Kind: "seq"}
	for _, f := range td.Fields {
		fv := v.FieldByName(f.Name)
		if !fv.IsValid() {
			continue
		}
		k, err := FromGo(s, f.Type, fv)
		if err != nil {
			return nil, err
		}
		if k != nil {
			out.Names = append(out.Names, f.Name)
			out.Kids = append(out.Kids, k)
		}
	}
	return out, nil
}
