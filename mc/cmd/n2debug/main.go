// n2debug runs one closed-system conversation and prints the trace (debugging aid, not a check).
package main

import (
	"fmt"
	"mc/report"
	"os"
	"path/filepath"
	"strconv"

	"mc/n2"
	"mc/refamf"
	"mc/refper"
)

func main() {
	s, _ := refper.LoadSchema(filepath.Join(report.VerifDir, "mc/spec/ngap_schema.json"))
	codec := &refper.Codec{S: s}
	emu := n2.DefaultEmuConfig()
	v := [5]int{1, 1, 0, 1, 0}
	for i := 0; i < 5 && i+1 < len(os.Args); i++ {
		v[i], _ = strconv.Atoi(os.Args[i+1])
	}
	emu.Reg, emu.Pdu, emu.Svc, emu.Rel, emu.Dereg = v[0], v[1], v[2], v[3], v[4]
	acfg := refamf.Config{IMSI: emu.IMSI, MCC: emu.MCC, MNC: emu.MNC, K: hexb(emu.K), OPc: hexb(emu.OPc), GnbID: []byte(emu.GnbID), GnbBits: 24, GnbName: emu.GnbName, GnbGtpIP: []byte{192, 168, 61, 3}, SST: 1, SD: []byte{1, 2, 3}, MaxUE: 32}
	a := refamf.New(acfg, refamf.DefaultChoices(), codec)
	res := n2.Run(n2.Opts{YAML: emu.YAML(), AMF: a, Strace: len(os.Args) > 6})
	fmt.Println("trace", a.Trace)
	fmt.Println("up", len(res.Up), "down", len(res.Down), "exit", res.ExitCode, "hung", res.Hung, "err", res.HarnessErr, "summary", a.Summary())
	fmt.Println("viol", a.Viol)
	if len(os.Args) > 6 {
		fmt.Println(res.StraceLog)
	}
}

func hexb(s string) []byte {
	b := make([]byte, len(s)/2)
	for i := range b {
		fmt.Sscanf(s[2*i:2*i+2], "%02x", &b[i])
	}
	return b
}
