// mcheck runs one property check: mcheck -prop C07 -tier quick
package main

import (
	"runtime/debug"
	"runtime/pprof"
	"flag"
	"fmt"
	"os"
	"strconv"

	"mc/props"
	"mc/report"
)

func main() {
	if len(os.Args) > 1 && os.Args[1] == "--worker" {
		props.WorkerMain(os.Args[2:])
		return
	}
	prop := flag.String("prop", "", "property id")
	tier := flag.String("tier", "quick", "quick|thorough")
	replay := flag.String("replay", "", "replay file")
	shard := flag.Int("shard", -1, "shard index (child process)")
	nshards := flag.Int("nshards", 0, "number of shards")
	partial := flag.String("partial", "", "partial result file (child process)")
	flag.Parse()
	if f := os.Getenv("MC_CPUPROFILE"); f != "" { // development aid: CPU profile of this (shard) process
		if w, err := os.Create(f); err == nil {
			pprof.StartCPUProfile(w)
			defer pprof.StopCPUProfile()
		}
	}
	seed := int64(1)
	if s := os.Getenv("VERIF_SEED"); s != "" {
		if v, err := strconv.ParseInt(s, 10, 64); err == nil {
			seed = v
		}
	}
	p, ok := props.Registry[*prop]
	if !ok {
		fmt.Fprintf(os.Stderr, "unknown property %q\n", *prop)
		os.Exit(2)
	}
	r := report.New(*prop, *tier, seed, p.Level)
	ctx := &props.Ctx{R: r, Tier: *tier, Seed: seed, Replay: *replay, Thorough: *tier == "thorough"}
	// a panic that reaches this frame came out of the code under check through a call the check did not guard (the harness
	// itself does not panic on the unchanged tree): it is a verdict about the tree, not a reason to die without one
	guarded := func() {
		defer func() {
			if e := recover(); e != nil {
				r.Violate("panic-while-checking", "unguarded call into the code under check", fmt.Sprintf("%v\n%s", e, debug.Stack()), nil)
				r.NotExhaustive("the check was ended by a panic; what follows the panicking call was not run")
			}
		}()
		p.Run(ctx)
	}
	if *shard >= 0 {
		ctx.Shard, ctx.NShards = *shard, *nshards
		guarded()
		if err := r.WritePartial(*partial); err != nil {
			fmt.Fprintln(os.Stderr, err)
			os.Exit(2)
		}
		pprof.StopCPUProfile()
		os.Exit(0)
	}
	guarded()
	os.Exit(r.Finish())
}
