// genschema writes the frozen NGAP schema from a Go package directory (run once on the pinned tree).
package main

import (
	"fmt"
	"os"

	"mc/refper"
)

func main() {
	s, err := refper.ParseGoDir(os.Args[1])
	if err != nil {
		panic(err)
	}
	if err := s.Save(os.Args[2]); err != nil {
		panic(err)
	}
	fmt.Println("types:", len(s.Types))
}
