// instrument writes overlay copies of repository packages for the C20 check: a vsched.Yield at the entry of
// every function that reads or writes a package-level variable which is mutated somewhere in its package, and
// "sync" replaced by the scheduler-aware vsync. Usage: instrument <outdir> <overlay.json> <importpath=dir>...
package main

import (
	"encoding/json"
	"fmt"
	"go/ast"
	"go/parser"
	"go/printer"
	"go/token"
	"os"
	"path/filepath"
	"sort"
	"strconv"
	"strings"
)

func rootIdent(e ast.Expr) *ast.Ident {
	for {
		switch x := e.(type) {
		case *ast.Ident:
			return x
		case *ast.IndexExpr:
			e = x.X
		case *ast.SelectorExpr:
			e = x.X
		case *ast.StarExpr:
			e = x.X
		case *ast.ParenExpr:
			e = x.X
		case *ast.SliceExpr:
			e = x.X
		default:
			return nil
		}
	}
}

func main() {
	out, ovPath := os.Args[1], os.Args[2]
	overlay := map[string]string{}
	if b, err := os.ReadFile(ovPath); err == nil {
		var o struct{ Replace map[string]string }
		json.Unmarshal(b, &o)
		for k, v := range o.Replace {
			overlay[k] = v
		}
	}
	os.MkdirAll(out, 0o755)
	report := []string{}
	for _, arg := range os.Args[3:] {
		ip, dir, _ := strings.Cut(arg, "=")
		fset := token.NewFileSet()
		pkgs, err := parser.ParseDir(fset, dir, func(fi os.FileInfo) bool { return !strings.HasSuffix(fi.Name(), "_test.go") }, parser.ParseComments)
		if err != nil {
			fmt.Fprintln(os.Stderr, "instrument:", err)
			os.Exit(1)
		}
		for _, pkg := range pkgs {
			// package-level variables
			pvars := map[string]bool{}
			for _, f := range pkg.Files {
				for _, d := range f.Decls {
					if gd, ok := d.(*ast.GenDecl); ok && gd.Tok == token.VAR {
						for _, sp := range gd.Specs {
							for _, n := range sp.(*ast.ValueSpec).Names {
								pvars[n.Name] = true
							}
						}
					}
				}
			}
			isPkgVar := func(id *ast.Ident) bool {
				if id == nil || !pvars[id.Name] {
					return false
				}
				if id.Obj == nil {
					return true // resolved in another file of the package
				}
				_, top := id.Obj.Decl.(*ast.ValueSpec)
				return top && id.Obj.Kind == ast.Var && fset.Position(id.Obj.Pos()).Column <= 5
			}
			mutated := map[string]bool{}
			for _, f := range pkg.Files {
				for _, d := range f.Decls {
					fd, ok := d.(*ast.FuncDecl)
					if !ok || fd.Body == nil || fd.Name.Name == "init" {
						continue
					}
					ast.Inspect(fd.Body, func(n ast.Node) bool {
						switch s := n.(type) {
						case *ast.AssignStmt:
							for _, l := range s.Lhs {
								if id := rootIdent(l); isPkgVar(id) {
									mutated[id.Name] = true
								}
							}
						case *ast.IncDecStmt:
							if id := rootIdent(s.X); isPkgVar(id) {
								mutated[id.Name] = true
							}
						case *ast.UnaryExpr:
							if s.Op == token.AND {
								if id := rootIdent(s.X); isPkgVar(id) {
									mutated[id.Name] = true
								}
							}
						}
						return true
					})
				}
			}
			names := []string{}
			for m := range mutated {
				names = append(names, m)
			}
			sort.Strings(names)
			for fname, f := range pkg.Files {
				changed := false
				usesSched := false
				for _, d := range f.Decls {
					fd, ok := d.(*ast.FuncDecl)
					if !ok || fd.Body == nil || fd.Name.Name == "init" {
						continue
					}
					touches := false
					ast.Inspect(fd.Body, func(n ast.Node) bool {
						if se, ok := n.(*ast.SelectorExpr); ok {
							// only the base of a selector can be a package variable
							ast.Inspect(se.X, func(m ast.Node) bool {
								if id, ok := m.(*ast.Ident); ok && isPkgVar(id) && mutated[id.Name] {
									touches = true
								}
								return true
							})
							return false
						}
						if id, ok := n.(*ast.Ident); ok && isPkgVar(id) && mutated[id.Name] {
							touches = true
						}
						return true
					})
					if touches {
						label := pkg.Name + "." + fd.Name.Name
						call := &ast.ExprStmt{X: &ast.CallExpr{Fun: &ast.SelectorExpr{X: ast.NewIdent("vsched"), Sel: ast.NewIdent("Yield")}, Args: []ast.Expr{&ast.BasicLit{Kind: token.STRING, Value: strconv.Quote(label)}}}}
						fd.Body.List = append([]ast.Stmt{call}, fd.Body.List...)
						changed, usesSched = true, true
						report = append(report, label)
					}
				}
				for _, im := range f.Imports {
					if im.Path.Value == `"sync"` {
						im.Path.Value = `"free5gclib/vsync"`
						if im.Name == nil {
							im.Name = ast.NewIdent("sync")
						}
						changed = true
					}
				}
				if !changed {
					continue
				}
				if usesSched {
					f.Decls = append([]ast.Decl{&ast.GenDecl{Tok: token.IMPORT, Specs: []ast.Spec{&ast.ImportSpec{Path: &ast.BasicLit{Kind: token.STRING, Value: `"free5gclib/vsched"`}}}}}, f.Decls...)
				}
				dst := filepath.Join(out, strings.ReplaceAll(ip, "/", "_")+"_"+filepath.Base(fname))
				w, err := os.Create(dst)
				if err != nil {
					fmt.Fprintln(os.Stderr, err)
					os.Exit(1)
				}
				printer.Fprint(w, fset, f)
				w.Close()
				abs, _ := filepath.Abs(fname)
				overlay[abs] = dst
			}
			if len(names) > 0 {
				fmt.Printf("%s: mutated package-level variables %v\n", ip, names)
			}
		}
	}
	b, _ := json.MarshalIndent(map[string]interface{}{"Replace": overlay}, "", " ")
	os.WriteFile(ovPath, b, 0o644)
	sort.Strings(report)
	fmt.Printf("yield points inserted in %d functions: %v\n", len(report), report)
}
