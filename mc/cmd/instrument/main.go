// instrument writes overlay copies of repository packages for the C20 check.
//
// Pass 1 (all packages): find the package-level variables that are *mutated at run time* somewhere in the
// instrumented packages: assigned (also through an index, field, dereference or slice expression), inc/dec'ed,
// address-taken, sliced (an array variable handed out as a slice), used as the receiver of a method call (pointer
// receivers mutate; loggers, regexps and the sync/atomic types are exempt because they synchronise internally or
// are immutable), or passed to copy/append/clear/delete as the destination — in their own package or, qualified
// with the package name, from another instrumented package.
// Pass 2: a vsched.Yield("<pkg>.<func>#<n>") in front of every *statement* that reads or writes such a variable
// (compound statements: in front of the statement when its header does, and inside its blocks), so that a
// check-then-act or write-then-read sequence inside one function can be interleaved, not only whole functions;
// "sync" is replaced by the scheduler-aware vsync.
// Usage: instrument <outdir> <overlay.json> <importpath=dir>...
package main

import (
	"encoding/json"
	"fmt"
	"go/ast"
	"go/parser"
	"go/printer"
	"go/token"
	"os"
	"path/filepath"
	"reflect"
	"sort"
	"strconv"
	"strings"
)

type pkgInfo struct {
	ip, dir string
	fset    *token.FileSet
	pkg     *ast.Package
	pvars   map[string]string // package-level variable -> declared type / initialiser text
}

var exemptType = []string{"logrus.", "log.Logger", "regexp.", "sync.Mutex", "sync.RWMutex", "sync.Once", "sync.WaitGroup", "atomic.", "vsync."}

func exprText(fset *token.FileSet, e ast.Expr) string {
	if e == nil {
		return ""
	}
	var sb strings.Builder
	printer.Fprint(&sb, fset, e)
	return sb.String()
}

// ref names the package-level variable an expression is rooted at: "" if none, "Name" for a variable of the
// current package, "importpath.Name" for a variable of another package.
type resolver struct {
	p       *pkgInfo
	imports map[string]string // local name -> import path (per file)
	fset    *token.FileSet
}

func (r *resolver) isOwnVar(id *ast.Ident) bool {
	if id == nil {
		return false
	}
	if _, ok := r.p.pvars[id.Name]; !ok {
		return false
	}
	if id.Obj == nil {
		return true // resolved in another file of the package
	}
	_, top := id.Obj.Decl.(*ast.ValueSpec)
	return top && id.Obj.Kind == ast.Var && r.fset.Position(id.Obj.Pos()).Column <= 5
}

func (r *resolver) root(e ast.Expr) string {
	for {
		switch x := e.(type) {
		case *ast.Ident:
			if r.isOwnVar(x) {
				return r.p.ip + "." + x.Name
			}
			return ""
		case *ast.SelectorExpr:
			if id, ok := x.X.(*ast.Ident); ok && id.Obj == nil {
				if ip, ok := r.imports[id.Name]; ok && !r.isOwnVar(id) {
					return ip + "." + x.Sel.Name
				}
			}
			e = x.X
		case *ast.IndexExpr:
			e = x.X
		case *ast.StarExpr:
			e = x.X
		case *ast.ParenExpr:
			e = x.X
		case *ast.SliceExpr:
			e = x.X
		case *ast.TypeAssertExpr:
			e = x.X
		default:
			return ""
		}
	}
}

func fileImports(f *ast.File) map[string]string {
	m := map[string]string{}
	for _, im := range f.Imports {
		p, _ := strconv.Unquote(im.Path.Value)
		name := p[strings.LastIndex(p, "/")+1:]
		if im.Name != nil {
			name = im.Name.Name
		}
		m[name] = p
	}
	return m
}

func main() {
	out, ovPath := os.Args[1], os.Args[2]
	overlay := map[string]string{}
	if b, err := os.ReadFile(ovPath); err == nil {
		var o struct{ Replace map[string]string }
		json.Unmarshal(b, &o)
		for k, v := range o.Replace {
			overlay[k] = v
		}
	}
	os.MkdirAll(out, 0o755)
	var pkgs []*pkgInfo
	allVars := map[string]string{} // qualified name -> type text
	for _, arg := range os.Args[3:] {
		ip, dir, _ := strings.Cut(arg, "=")
		fset := token.NewFileSet()
		ps, err := parser.ParseDir(fset, dir, func(fi os.FileInfo) bool { return !strings.HasSuffix(fi.Name(), "_test.go") }, parser.ParseComments)
		if err != nil {
			fmt.Fprintln(os.Stderr, "instrument:", err)
			os.Exit(1)
		}
		for _, pkg := range ps {
			pi := &pkgInfo{ip: ip, dir: dir, fset: fset, pkg: pkg, pvars: map[string]string{}}
			for _, f := range pkg.Files {
				for _, d := range f.Decls {
					if gd, ok := d.(*ast.GenDecl); ok && gd.Tok == token.VAR {
						for _, sp := range gd.Specs {
							vs := sp.(*ast.ValueSpec)
							for i, n := range vs.Names {
								t := exprText(fset, vs.Type)
								if i < len(vs.Values) {
									t += " = " + exprText(fset, vs.Values[i])
								}
								pi.pvars[n.Name] = t
								allVars[ip+"."+n.Name] = t
								allVars[ip+"."+n.Name+"\x00known"] = "y" // method calls count only on variables whose declaration is visible
							}
						}
					}
				}
			}
			pkgs = append(pkgs, pi)
		}
	}
	exempt := func(q string) bool {
		t, known := allVars[q]
		if !known {
			return false
		}
		for _, e := range exemptType {
			if strings.Contains(t, e) {
				return true
			}
		}
		return false
	}
	// pass 1: mutated variables (qualified names)
	mutated := map[string]string{} // name -> first reason
	mark := func(q, why string) {
		if q == "" {
			return
		}
		if _, ok := mutated[q]; !ok {
			mutated[q] = why
		}
	}
	for _, pi := range pkgs {
		for _, f := range pi.pkg.Files {
			r := &resolver{p: pi, imports: fileImports(f), fset: pi.fset}
			for _, d := range f.Decls {
				fd, ok := d.(*ast.FuncDecl)
				if !ok || fd.Body == nil || fd.Name.Name == "init" {
					continue
				}
				where := pi.pkg.Name + "." + fd.Name.Name
				ast.Inspect(fd.Body, func(n ast.Node) bool {
					switch s := n.(type) {
					case *ast.AssignStmt:
						if s.Tok != token.DEFINE {
							for _, l := range s.Lhs {
								mark(r.root(l), "assigned in "+where)
							}
						}
					case *ast.IncDecStmt:
						mark(r.root(s.X), "inc/dec in "+where)
					case *ast.RangeStmt:
						if s.Tok == token.ASSIGN {
							mark(r.root(s.Key), "range-assigned in "+where)
							if s.Value != nil {
								mark(r.root(s.Value), "range-assigned in "+where)
							}
						}
					case *ast.SendStmt:
						mark(r.root(s.Chan), "channel send in "+where) // a package-level channel used as a queue / free list is shared state
					case *ast.UnaryExpr:
						if s.Op == token.AND {
							mark(r.root(s.X), "address taken in "+where)
						}
						if s.Op == token.ARROW {
							mark(r.root(s.X), "channel receive in "+where)
						}
					case *ast.SliceExpr:
						if q := r.root(s.X); q != "" && strings.HasPrefix(strings.TrimSpace(allVars[q]), "[") && !strings.HasPrefix(strings.TrimSpace(allVars[q]), "[]") {
							// an array variable handed out as a slice: aliasing; only counts when the slice is a call argument or assigned
							mark(q, "array sliced in "+where)
						}
					case *ast.CallExpr:
						if se, ok := s.Fun.(*ast.SelectorExpr); ok {
							if q := r.root(se.X); q != "" && !exempt(q) && allVars[q+"\x00known"] == "y" {
								// method call on (something rooted at) a package-level variable; pkg.Func() is not one
								if id, isId := se.X.(*ast.Ident); !(isId && id.Obj == nil && r.imports[id.Name] != "" && !r.isOwnVar(id)) {
									mark(q, "method "+se.Sel.Name+" called in "+where)
								}
							}
						}
						if id, ok := s.Fun.(*ast.Ident); ok && len(s.Args) > 0 {
							switch id.Name {
							case "copy", "append", "clear", "delete":
								mark(r.root(s.Args[0]), id.Name+" destination in "+where)
							}
						}
					}
					return true
				})
			}
		}
	}
	// pass 1b: aliases. A local variable that is assigned from something rooted at a mutated package-level variable
	// (an element of a shared table, the result of cache.Load / pool.Get, the result of a function of the same package
	// that returns such a thing, or something derived from an already tainted local) refers to shared storage;
	// statements that use such a local get scheduling points like statements that name the variable itself.
	// Intra-procedural, flow-insensitive, to a fixpoint; function results are summarised per package by name.
	type fnKey struct {
		ip   string
		name string
	}
	sharedFuncs := map[fnKey]bool{}
	tainted := map[*ast.FuncDecl]map[string]bool{}
	var isShared func(r *resolver, pi *pkgInfo, t map[string]bool, e ast.Expr) bool
	isShared = func(r *resolver, pi *pkgInfo, t map[string]bool, e ast.Expr) bool {
		switch x := e.(type) {
		case nil:
			return false
		case *ast.ParenExpr:
			return isShared(r, pi, t, x.X)
		case *ast.StarExpr:
			return isShared(r, pi, t, x.X)
		case *ast.UnaryExpr:
			return x.Op == token.AND && isShared(r, pi, t, x.X)
		case *ast.TypeAssertExpr:
			return isShared(r, pi, t, x.X)
		case *ast.IndexExpr:
			return isShared(r, pi, t, x.X)
		case *ast.SliceExpr:
			return isShared(r, pi, t, x.X)
		case *ast.Ident:
			if t[x.Name] && !r.isOwnVar(x) {
				return true
			}
			if q := r.root(x); q != "" {
				_, m := mutated[q]
				return m
			}
			return false
		case *ast.SelectorExpr:
			if q := r.root(x); q != "" {
				_, m := mutated[q]
				return m
			}
			return isShared(r, pi, t, x.X)
		case *ast.CallExpr:
			switch f := x.Fun.(type) {
			case *ast.Ident:
				return sharedFuncs[fnKey{pi.ip, f.Name}]
			case *ast.SelectorExpr:
				if id, ok := f.X.(*ast.Ident); ok && id.Obj == nil && r.imports[id.Name] != "" && !r.isOwnVar(id) {
					return sharedFuncs[fnKey{r.imports[id.Name], f.Sel.Name}]
				}
				// method call: on a shared receiver (cache.Load, pool.Get, shared.method()) or a method of this package known to return shared storage
				return isShared(r, pi, t, f.X) || sharedFuncs[fnKey{pi.ip, f.Sel.Name}]
			}
		}
		return false
	}
	for round := 0; round < 6; round++ {
		progress := false
		for _, pi := range pkgs {
			for _, f := range pi.pkg.Files {
				r := &resolver{p: pi, imports: fileImports(f), fset: pi.fset}
				for _, d := range f.Decls {
					fd, ok := d.(*ast.FuncDecl)
					if !ok || fd.Body == nil || fd.Name.Name == "init" {
						continue
					}
					t := tainted[fd]
					if t == nil {
						t = map[string]bool{}
						tainted[fd] = t
					}
					taint := func(e ast.Expr) {
						if id, ok := e.(*ast.Ident); ok && id.Name != "_" && !t[id.Name] && !r.isOwnVar(id) {
							t[id.Name] = true
							progress = true
						}
					}
					ast.Inspect(fd.Body, func(n ast.Node) bool {
						switch x := n.(type) {
						case *ast.AssignStmt:
							if len(x.Rhs) == 1 && len(x.Lhs) >= 1 {
								if isShared(r, pi, t, x.Rhs[0]) {
									taint(x.Lhs[0]) // v, ok := shared.Load(..): only the value
								}
							} else {
								for i := range x.Rhs {
									if i < len(x.Lhs) && isShared(r, pi, t, x.Rhs[i]) {
										taint(x.Lhs[i])
									}
								}
							}
						case *ast.ValueSpec:
							for i, v := range x.Values {
								if i < len(x.Names) && isShared(r, pi, t, v) {
									taint(x.Names[i])
								}
							}
						case *ast.RangeStmt:
							if isShared(r, pi, t, x.X) && x.Value != nil {
								taint(x.Value)
							}
						case *ast.ReturnStmt:
							for _, e := range x.Results {
								if isShared(r, pi, t, e) && !sharedFuncs[fnKey{pi.ip, fd.Name.Name}] {
									sharedFuncs[fnKey{pi.ip, fd.Name.Name}] = true
									progress = true
								}
							}
						}
						return true
					})
				}
			}
		}
		if !progress {
			break
		}
	}
	nTainted := 0
	for _, t := range tainted {
		nTainted += len(t)
	}
	// pass 2: yields
	coarse := os.Getenv("INSTRUMENT_COARSE") != "0"
	nfn := 0
	var sites []string
	for _, pi := range pkgs {
		for fname, f := range pi.pkg.Files {
			r := &resolver{p: pi, imports: fileImports(f), fset: pi.fset}
			var curTaint map[string]bool // tainted locals of the function being instrumented
			touches := func(n ast.Node) bool {
				if n == nil || (reflect.ValueOf(n).Kind() == reflect.Ptr && reflect.ValueOf(n).IsNil()) {
					return false
				}
				hit := false
				ast.Inspect(n, func(m ast.Node) bool {
					if hit {
						return false
					}
					switch x := m.(type) {
					case *ast.SelectorExpr:
						if q := r.root(x); q != "" {
							if _, ok := mutated[q]; ok {
								hit = true
							}
							return false
						}
					case *ast.Ident:
						if r.isOwnVar(x) {
							if _, ok := mutated[pi.ip+"."+x.Name]; ok {
								hit = true
							}
						} else if curTaint[x.Name] {
							hit = true
						}
					case *ast.FuncLit:
						return false // its body gets its own yields
					}
					return true
				})
				return hit
			}
			changed, usesSched := false, false
			for _, d := range f.Decls {
				fd, ok := d.(*ast.FuncDecl)
				if !ok || fd.Body == nil || fd.Name.Name == "init" {
					continue
				}
				curTaint = tainted[fd]
				n := 0
				yield := func() ast.Stmt {
					n++
					label := pi.pkg.Name + "." + fd.Name.Name + "#" + strconv.Itoa(n)
					sites = append(sites, label)
					return &ast.ExprStmt{X: &ast.CallExpr{Fun: &ast.SelectorExpr{X: ast.NewIdent("vsched"), Sel: ast.NewIdent("Yield")}, Args: []ast.Expr{&ast.BasicLit{Kind: token.STRING, Value: strconv.Quote(label)}}}}
				}
				var block func(list []ast.Stmt) []ast.Stmt
				var stmt func(s ast.Stmt) (before bool)
				stmt = func(s ast.Stmt) bool {
					switch x := s.(type) {
					case *ast.BlockStmt:
						x.List = block(x.List)
						return false
					case *ast.LabeledStmt:
						return stmt(x.Stmt)
					case *ast.IfStmt:
						b := touches(x.Init) || touches(x.Cond)
						x.Body.List = block(x.Body.List)
						if x.Else != nil {
							if stmt(x.Else) {
								b = true
							}
						}
						return b
					case *ast.ForStmt:
						b := touches(x.Init) || touches(x.Cond) || touches(x.Post)
						x.Body.List = block(x.Body.List)
						if touches(x.Cond) || touches(x.Post) {
							x.Body.List = append([]ast.Stmt{yield()}, x.Body.List...)
						}
						return b
					case *ast.RangeStmt:
						b := touches(x.X) || touches(x.Key) || touches(x.Value)
						x.Body.List = block(x.Body.List)
						return b
					case *ast.SwitchStmt:
						b := touches(x.Init) || touches(x.Tag)
						for _, c := range x.Body.List {
							cc := c.(*ast.CaseClause)
							for _, e := range cc.List {
								if touches(e) {
									b = true
								}
							}
							cc.Body = block(cc.Body)
						}
						return b
					case *ast.TypeSwitchStmt:
						b := touches(x.Init) || touches(x.Assign)
						for _, c := range x.Body.List {
							cc := c.(*ast.CaseClause)
							cc.Body = block(cc.Body)
						}
						return b
					case *ast.SelectStmt:
						b := false
						for _, c := range x.Body.List {
							cc := c.(*ast.CommClause)
							if touches(cc.Comm) {
								b = true
							}
							cc.Body = block(cc.Body)
						}
						return b
					default:
						return touches(s)
					}
				}
				block = func(list []ast.Stmt) []ast.Stmt {
					var outl []ast.Stmt
					for _, s := range list {
						if stmt(s) {
							outl = append(outl, yield())
						}
						outl = append(outl, s)
					}
					return outl
				}
				fd.Body.List = block(fd.Body.List)
				if coarse {
					// coarse scheduling point at the entry of every function of the instrumented packages (shared state that
					// the syntactic analysis cannot see - objects handed out by a cache or pool, aliases - is still interleaved
					// at call granularity); the harness bounds the dynamic instances per function and thread
					recv := ""
					if fd.Recv != nil && len(fd.Recv.List) > 0 {
						recv = strings.TrimPrefix(exprText(pi.fset, fd.Recv.List[0].Type), "*") + "."
					}
					label := "fn:" + pi.pkg.Name + "." + recv + fd.Name.Name
					fd.Body.List = append([]ast.Stmt{&ast.ExprStmt{X: &ast.CallExpr{Fun: &ast.SelectorExpr{X: ast.NewIdent("vsched"), Sel: ast.NewIdent("Yield")}, Args: []ast.Expr{&ast.BasicLit{Kind: token.STRING, Value: strconv.Quote(label)}}}}}, fd.Body.List...)
					nfn++
					changed, usesSched = true, true
				}
				// closures
				ast.Inspect(fd.Body, func(m ast.Node) bool {
					if fl, ok := m.(*ast.FuncLit); ok {
						fl.Body.List = block(fl.Body.List)
					}
					return true
				})
				if n > 0 {
					changed, usesSched = true, true
				}
			}
			for _, im := range f.Imports {
				if im.Path.Value == `"sync"` {
					im.Path.Value = `"free5gclib/vsync"`
					if im.Name == nil {
						im.Name = ast.NewIdent("sync")
					}
					changed = true
				}
			}
			if !changed {
				continue
			}
			if usesSched {
				f.Decls = append([]ast.Decl{&ast.GenDecl{Tok: token.IMPORT, Specs: []ast.Spec{&ast.ImportSpec{Path: &ast.BasicLit{Kind: token.STRING, Value: `"free5gclib/vsched"`}}}}}, f.Decls...)
			}
			dst := filepath.Join(out, strings.ReplaceAll(pi.ip, "/", "_")+"_"+filepath.Base(fname))
			w, err := os.Create(dst)
			if err != nil {
				fmt.Fprintln(os.Stderr, err)
				os.Exit(1)
			}
			// comments are dropped from the printed copy: statement insertion moves positions and the printer would
			// otherwise place comments inside expressions; build constraints are re-emitted
			for _, cg := range f.Comments {
				for _, c := range cg.List {
					if strings.HasPrefix(c.Text, "//go:build") && c.Pos() < f.Package {
						fmt.Fprintln(w, c.Text)
						fmt.Fprintln(w)
					}
				}
			}
			f.Comments = nil
			f.Doc = nil
			printer.Fprint(w, pi.fset, f)
			w.Close()
			abs, _ := filepath.Abs(fname)
			overlay[abs] = dst
		}
	}
	names := []string{}
	for m, why := range mutated {
		names = append(names, m+" ("+why+")")
	}
	sort.Strings(names)
	fmt.Printf("mutated package-level variables: %d\n", len(names))
	for _, n := range names {
		fmt.Println("  " + n)
	}
	b, _ := json.MarshalIndent(map[string]interface{}{"Replace": overlay}, "", " ")
	os.WriteFile(ovPath, b, 0o644)
	fmt.Printf("yield sites inserted: %d\n", len(sites))
	ms := []string{}
	for m := range mutated {
		ms = append(ms, m)
	}
	sort.Strings(ms)
	fmt.Printf("function-entry yields inserted: %d\n", nfn)
	sf := []string{}
	for k := range sharedFuncs {
		sf = append(sf, k.ip+"."+k.name)
	}
	sort.Strings(sf)
	fmt.Printf("aliases of shared storage: %d local variables; functions returning shared storage: %v\n", nTainted, sf)
	js, _ := json.Marshal(map[string]interface{}{"mutated": ms, "sites": len(sites), "functions": nfn})
	os.WriteFile(filepath.Join(out, "instrument.json"), js, 0o644)
}
