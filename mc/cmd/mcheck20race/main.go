// mcheck20race: the free-running pass of C20. Built with -race; runs the C20 operation bodies on G goroutines
// released together, several rounds, and compares every output with the sequential one.
package main

import (
	"flag"
	"fmt"
	"os"
	"sync"

	"mc/props"
)

func main() {
	g := flag.Int("g", 8, "goroutines")
	rounds := flag.Int("rounds", 200, "rounds")
	coldop := flag.Int("coldop", -1, "cold pass: the first thing this process does is operation number coldop on every goroutine at once")
	flag.Parse()
	var mism []string
	if *coldop >= 0 {
		mism = props.C20FreeRunCold(*g, *coldop)
	} else {
		mism = props.C20FreeRun(*g, *rounds)
	}
	for _, m := range mism {
		fmt.Println("MISMATCH", m)
	}
	_ = sync.Mutex{}
	if len(mism) > 0 {
		os.Exit(1)
	}
}
