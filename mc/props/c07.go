package props

import (
	"io"
	"github.com/sirupsen/logrus"
	naslogger "free5gclib/nas/logger"
	"bytes"
	"fmt"

	"free5gclib/nas/security"
	"free5gclib/nas/security/snow3g"
	"mc/refcrypto"
	"mc/report"
)

func init() { register("C07", "exploration", runC07) }

type c07op struct {
	alg    int // 0..2 cipher NEA0..2 ; 11,12 = NIA1,NIA2
	key    [16]byte
	count  uint32
	bearer uint8
	dir    uint8
	n      int
	pat    int
}

func (o c07op) String() string {
	name := map[int]string{0: "NEA0", 1: "NEA1", 2: "NEA2", 11: "NIA1", 12: "NIA2"}[o.alg]
	return fmt.Sprintf("%s key=%x count=%#x bearer=%d dir=%d len=%d data=%d", name, o.key, o.count, o.bearer, o.dir, o.n, o.pat)
}

// c07run executes op on the library and compares with the reference. Returns (finding key, detail) or "".
func c07run(o c07op) (outcome string, key string, detail string) {
	data := pattern(o.pat, o.n)
	if o.alg < 10 {
		buf := append([]byte{}, data...)
		var err error
		perr := recoverErr(func() {
			if o.alg == 1 {
				snowMu.Lock()
				defer snowMu.Unlock()
			}
			err = security.NASEncrypt(uint8(o.alg), o.key, o.count, o.bearer, o.dir, buf)
		})
		if perr != nil {
			return "panic", fmt.Sprintf("NEA%d/panic", o.alg), perr.Error()
		}
		if err != nil {
			return "error", fmt.Sprintf("NEA%d/error", o.alg), err.Error()
		}
		ks := refcrypto.NEAKeystream(o.alg, o.key, o.count, uint32(o.bearer), uint32(o.dir), o.n)
		want := make([]byte, o.n)
		for i := range want {
			want[i] = data[i] ^ ks[i]
		}
		if !bytes.Equal(buf, want) {
			// classify
			first := -1
			for i := range buf {
				if buf[i] != want[i] {
					first = i
					break
				}
			}
			k := fmt.Sprintf("NEA%d/keystream-mismatch", o.alg)
			if o.n%4 == 0 && first >= o.n-4 && bytes.Equal(buf[o.n-4:], data[o.n-4:]) && bytes.Equal(buf[:o.n-4], want[:o.n-4]) {
				k = fmt.Sprintf("NEA%d/last-word-in-clear/len%%4==0", o.alg)
			}
			return "mismatch", k, fmt.Sprintf("first differing octet %d: got %x want %x", first, buf, want)
		}
		// twice = identity
		perr = recoverErr(func() {
			if o.alg == 1 {
				snowMu.Lock()
				defer snowMu.Unlock()
			}
			err = security.NASEncrypt(uint8(o.alg), o.key, o.count, o.bearer, o.dir, buf)
		})
		if perr != nil || err != nil || !bytes.Equal(buf, data) {
			return "mismatch", fmt.Sprintf("NEA%d/twice-not-identity", o.alg), fmt.Sprintf("got %x want %x", buf, data)
		}
		return fmt.Sprintf("%x", want[:min(4, len(want))]), "", ""
	}
	alg := o.alg - 10
	var mac []byte
	var err error
	in := append([]byte{}, data...)
	perr := recoverErr(func() {
		if alg == 1 {
			snowMu.Lock()
			defer snowMu.Unlock()
		}
		mac, err = security.NASMacCalculate(uint8(alg), o.key, o.count, o.bearer, o.dir, in)
	})
	if perr != nil {
		return "panic", fmt.Sprintf("NIA%d/panic", alg), perr.Error()
	}
	if err != nil {
		return "error", fmt.Sprintf("NIA%d/error", alg), err.Error()
	}
	want := refcrypto.NIA(alg, o.key, o.count, uint32(o.bearer), uint32(o.dir), data)
	if !bytes.Equal(mac, want[:]) {
		return "mismatch", fmt.Sprintf("NIA%d/mac-mismatch", alg), fmt.Sprintf("got %x want %x", mac, want)
	}
	if !bytes.Equal(in, data) {
		return "mismatch", fmt.Sprintf("NIA%d/input-modified", alg), ""
	}
	return fmt.Sprintf("%x", mac), "", ""
}

func runC07(ctx *Ctx) {
	r := ctx.R
	if err := refcrypto.SelfTest(); err != nil {
		r.HarnessError(err.Error())
		return
	}
	maxLen, nkeys := 96, 4
	counts := []uint32{0, 1, 0xff, 0x100, 0xffffff, 0x80000000, 0xffffffff}
	pats := []int{2, 0, 1}
	if ctx.Thorough {
		maxLen, nkeys = 512, 22
	}
	keys := keyAlphabet(nkeys)
	r.Rule = fmt.Sprintf("full product: alg{NEA0,NEA1,NEA2,NIA1,NIA2} x len 1..%d x BEARER 0..31 x DIR 0..1 x COUNT %v x %d keys x %d data patterns (thorough: lengths>96 use bearers {0,1,31} and 6 keys), plus long lengths 2^k-1,2^k,2^k+1,2^k+3,2^k+4 for 2^k=1024..8192 (65536 in thorough) and every residue mod 16 above 1490..1553, 2040, 3000, 4090, 5000, 9000, 20000 (thorough: every length 1025..2300) x 2 directions x 2 COUNTs, and 2^20-1..2^20+33 (beyond 65536 cipher blocks), "+
		"plus lengths 1..96 with the security logger at trace level, plus all operation sequences of depth 2 and 3 over 12 operations (result independent of earlier calls), plus 4x256 SNOW 3G table entries; oracle: independent refcrypto (ciphertext xor plaintext == reference keystream on every octet, MAC equality, twice = identity); "+
		"every case has a distinct parameter tuple by construction and all are non-trivial (each exercises the algorithm on non-empty data)", maxLen, counts, nkeys, len(pats))
	r.Assume("refcrypto anchors: TS 35.207 set 1, RFC 4493, TS 33.401 C.1 EEA2 set 1, SNOW 3G set 1 keystream, UEA2 set 1; no published anchor for the GF(2^64) step of 128-EIA1 (reference written from TS 35.215 4.4 with a different multiplication algorithm)",
		"key/COUNT values outside the alphabet are not enumerated; the algorithms have no key- or data-dependent branch except length handling")
	algs := []int{1, 2, 11, 12, 0}
	type dim struct{ alg, n int }
	var dims []dim
	for n := 1; n <= maxLen; n++ {
		for _, a := range algs {
			dims = append(dims, dim{a, n})
		}
	}
	viol := func(o c07op, key, detail string) {
		r.Violate(key, o.String(), detail, o)
	}
	if !ctx.IsChild() {
		ctx.Fork(Workers())
	} else {
		l := r.Local()
		for i := range dims {
			if !ctx.Mine(i) {
				continue
			}
			d := dims[i]
			bearers := 32
			ks := keys
			if d.n > 96 {
				ks = keys[:min(6, len(keys))]
			}
			for b := 0; b < bearers; b++ {
				if d.n > 96 && !(b == 0 || b == 1 || b == 31) {
					continue
				}
				for dir := 0; dir < 2; dir++ {
					for _, c := range counts {
						for _, k := range ks {
							for _, p := range pats {
								o := c07op{d.alg, k, c, uint8(b), uint8(dir), d.n, p}
								out, key, detail := c07run(o)
								l.CaseN(true, report.H(out))
								if key != "" {
									viol(o, key, detail)
								}
							}
						}
					}
				}
			}
		}
		l.Merge()
		// the remaining parts are spread over the shard processes too (each part sequential inside one shard)
		seqShard, seqShards = ctx.Shard, ctx.NShards
	}
	inShard := func(k int) bool { return ctx.IsChild() && ctx.Shard == k%ctx.NShards }
	// long messages (NAS containers go up to 64K): lengths around powers of two, reduced parameters
	var longLens []int
	top := 8192
	if ctx.Thorough {
		top = 65536
	}
	for n := 1024; n <= top; n *= 2 {
		longLens = append(longLens, n-1, n, n+1, n+3, n+4)
	}
	longLens = append(longLens, 1500, 2000, 3000, 5000)
	// every residue mod 16 above several sizes at which an implementation may switch strategy (MTU-like sizes, pages),
	// densely around 1500; and beyond 65536 AES blocks / 2^18 SNOW 3G words (1 MiB)
	for _, base := range []int{1490, 1506, 1522, 1538, 2040, 3000, 4090, 5000, 9000, 20000} {
		for n := base; n < base+16; n++ {
			longLens = append(longLens, n)
		}
	}
	if ctx.Thorough {
		for n := 1025; n <= 2300; n++ {
			longLens = append(longLens, n)
		}
	}
	for _, d := range []int{-1, 0, 1, 15, 16, 17, 33} {
		longLens = append(longLens, 1<<20+d)
	}
	{
		seen := map[int]bool{}
		uniq := longLens[:0]
		for _, n := range longLens {
			if !seen[n] {
				seen[n] = true
				uniq = append(uniq, n)
			}
		}
		longLens = uniq
	}
	if ctx.IsChild() {
		ParallelFor(r, len(longLens)*len(algs), func(l *report.Local, i int) {
			n, a := longLens[i/len(algs)], algs[i%len(algs)]
			for _, dir := range []uint8{0, 1} {
				for _, c := range []uint32{0, 0xffffff} {
					if n > 100000 && (dir == 1 || c != 0 || (!ctx.Thorough && (a == 1 || a == 11) && n != 1<<20+17)) {
						continue // the 1 MiB messages once per algorithm (quick: one length for the SNOW 3G algorithms, whose library code is slow)
					}
					o := c07op{a, keys[2], c, 1, dir, n, 2}
					out, key, detail := c07run(o)
					l.CaseN(true, report.H(out))
					if key != "" {
						if len(detail) > 300 {
							detail = detail[:300]
						}
						viol(o, key+"/long", detail)
					}
				}
			}
		})
	} else {
		r.Set("long_lengths", longLens)
		r.Sample(c07op{1, keys[2], 0xff, 1, 0, 8, 2}.String())
		r.Sample(c07op{11, keys[1], 0xffffffff, 31, 1, maxLen, 1}.String())
	}

	// the algorithms' results do not depend on how talkative the NAS security logger is: lengths 1..96 for every algorithm
	// with the logger at trace level (output discarded, file hooks removed)
	if inShard(3) {
		lg := naslogger.SecurityLog.Logger
		oldOut, oldLevel := lg.Out, lg.Level
		lg.SetOutput(io.Discard)
		oldHooks := lg.ReplaceHooks(make(logrus.LevelHooks))
		lg.SetLevel(logrus.TraceLevel)
		lv := r.Local()
		for n := 1; n <= 96; n++ {
			for _, a := range algs {
				o := c07op{a, keys[1], 0x1234, 3, uint8(n & 1), n, 2}
				out, key, detail := c07run(o)
				lv.CaseN(true, report.H("trace"+out+fmt.Sprint(a, n)))
				if key != "" {
					viol(o, key+"/logger-at-trace-level", detail)
				}
			}
		}
		lv.Merge()
		lg.SetLevel(oldLevel)
		lg.ReplaceHooks(oldHooks)
		lg.SetOutput(oldOut)
	}

	// Part 2: operation sequences (history independence). Sequential: the order is the point.
	var ops []c07op
	for _, a := range []int{1, 2, 11, 12} {
		ops = append(ops, c07op{a, keys[2], 0x100, 1, 0, 7, 2}, c07op{a, keys[3], 0xffffff, 31, 1, 16, 1}, c07op{a, keys[0], 0, 0, 0, 33, 0})
	}
	l := r.Local()
	seqs := 0
	var rec func(seq []int, depth int)
	rec = func(seq []int, depth int) {
		if len(seq) >= 2 {
			seqs++
			desc := ""
			for _, i := range seq {
				_, key, detail := c07run(ops[i])
				desc += ops[i].String() + " ; "
				if key != "" {
					r.Violate("sequence/"+key, desc, detail, nil)
				}
			}
			l.Case("seq:"+fmt.Sprint(seq), true, "ok")
		}
		if len(seq) == depth {
			return
		}
		for i := range ops {
			rec(append(seq, i), depth)
		}
	}
	if inShard(1) {
		rec(nil, 3)
		l.Merge()
		r.Add("operation_sequences", int64(seqs))
	} else if !ctx.IsChild() {
		r.Sample("sequence: " + ops[0].String() + " ; " + ops[7].String() + " ; " + ops[0].String())
	}

	// Part 2b: key populations. Every one of N distinct keys is used once, then every key again, then again in reverse
	// order (a bounded memo of key schedules or per-key objects that evicts or indexes wrongly is only wrong for a key
	// that comes back after enough other keys). N is above the usual table sizes 256 / 1024 / 4096.
	{
		lp := r.Local()
		job := 1
		for _, pop := range []int{300, 1100, 4200} {
			if pop > 1100 && !ctx.Thorough {
				continue
			}
			for _, a := range []int{2, 12, 1, 11} {
				job++
				if !inShard(job) {
					continue
				}
				mk := func(i int) c07op {
					var k [16]byte
					for j := range k {
						k[j] = byte(i>>uint(8*(j%3))) ^ byte(j*29) ^ byte(a)
					}
					return c07op{a, k, uint32(i), uint8(i % 32), uint8(i & 1), 9 + i%23, i % 3}
				}
				order := make([]int, 0, 3*pop)
				for i := 0; i < pop; i++ {
					order = append(order, i)
				}
				for i := 0; i < pop; i++ {
					order = append(order, i)
				}
				for i := pop - 1; i >= 0; i-- {
					order = append(order, i)
				}
				for step, i := range order {
					o := mk(i)
					_, key, detail := c07run(o)
					lp.CaseN(true, uint64(a)<<32|uint64(step))
					if key != "" {
						r.Violate("key-population/"+key, fmt.Sprintf("%d distinct keys, each used once, then again, then in reverse: step %d (key %d) %s", pop, step, i, o.String()), trunc(detail, 300), nil)
						break
					}
				}
			}
		}
		lp.Merge()
		if !ctx.IsChild() {
			r.Sample("key population: 1100 distinct keys used for NEA2, then all again, then in reverse order")
		}
	}
	if ctx.IsChild() {
		return
	}

	// Part 3: snow3g entry points directly (keystream words), and the tables.
	lt := r.Local()
	for ki, k := range keys {
		for _, c := range counts {
			kw := [4]uint32{be32(k[12:]), be32(k[8:]), be32(k[4:]), be32(k[0:])}
			iv := [4]uint32{c ^ 0x5a5a5a5a, c, ^c, uint32(ki)}
			for _, n := range []int{1, 2, 5, 33} {
				got := make([]uint32, n)
				snowMu.Lock()
				snow3g.InitSnow3g(kw, iv)
				snow3g.GenerateKeystream(n, got)
				snowMu.Unlock()
				g := refcrypto.NewSnow3G(kw, iv)
				for j := 0; j < n; j++ {
					if w := g.Next(); w != got[j] {
						r.Violate("snow3g/keystream-word", fmt.Sprintf("k=%x iv=%x word %d", kw, iv, j), fmt.Sprintf("got %08x want %08x", got[j], w), nil)
						break
					}
				}
				lt.Case(fmt.Sprintf("snow3g k=%x iv=%x n=%d", kw, iv, n), true, fmt.Sprint(got[0]))
			}
		}
	}
	if snowTables != nil {
		for i := 0; i < 256; i++ {
			b := byte(i)
			if snowTables.SR(b) != refcrypto.SR[i] {
				r.Violate("snow3g/S_R-entry", fmt.Sprintf("S_R[%#x]", i), fmt.Sprintf("got %#x want %#x", snowTables.SR(b), refcrypto.SR[i]), nil)
			}
			if snowTables.SQ(b) != refcrypto.SQ[i] {
				r.Violate("snow3g/S_Q-entry", fmt.Sprintf("S_Q[%#x]", i), fmt.Sprintf("got %#x want %#x", snowTables.SQ(b), refcrypto.SQ[i]), nil)
			}
			if snowTables.Mul(b) != refcrypto.MulAlpha(b) {
				r.Violate("snow3g/MULalpha", fmt.Sprintf("MULalpha(%#x)", i), fmt.Sprintf("got %#x want %#x", snowTables.Mul(b), refcrypto.MulAlpha(b)), nil)
			}
			if snowTables.Div(b) != refcrypto.DivAlpha(b) {
				r.Violate("snow3g/DIValpha", fmt.Sprintf("DIValpha(%#x)", i), fmt.Sprintf("got %#x want %#x", snowTables.Div(b), refcrypto.DivAlpha(b)), nil)
			}
			for t := 0; t < 4; t++ {
				lt.Case(fmt.Sprintf("table %d entry %d", t, i), true, fmt.Sprint(t, i))
			}
		}
		r.Set("tables_checked_directly", true)
	} else {
		// Without the accessor overlay the tables are observed through S1/S2 inside the keystream:
		// drive every S-box index through the FSM with keys that set each octet value.
		r.Set("tables_checked_directly", false)
		for v := 0; v < 256; v++ {
			var k [16]byte
			for i := range k {
				k[i] = byte(v)
			}
			o := c07op{1, k, uint32(v) * 0x01010101, 1, 0, 64, 0}
			out, key, detail := c07run(o)
			lt.Case(o.String(), true, out)
			if key != "" {
				viol(o, key, detail)
			}
		}
	}
	lt.Merge()
}

func be32(b []byte) uint32 {
	return uint32(b[0])<<24 | uint32(b[1])<<16 | uint32(b[2])<<8 | uint32(b[3])
}
