package props

import (
	"strings"
	"bytes"
	"fmt"
	naslog "free5gclib/nas/logger"
	"github.com/sirupsen/logrus"
	"hash/fnv"
	"net"

	"free5gclib/nas/nasConvert"
	"free5gclib/ngap/ngapConvert"
	"free5gclib/openapi/models"
	"free5gclib/util_3gpp"
	"mc/report"
)

func init() { register("C17", "exploration", runC17) }

// results kept from the previous call of each conversion, looked at again after the next call (single-threaded shards)
var c17heldPlmn, c17heldSnssai, c17heldPco, c17heldIP held

func runC17(ctx *Ctx) {
	r := ctx.R
	if ctx.Isolate() {
		return
	}
	r.Rule = "exhaustive where the domain allows: PLMN 1000x1100; AMF-ID all 2^24; S-NSSAI SST 0..255 x SD{absent,000000,000001,010203,ffffff,upper-case} and SD all 2^24 x SST 1; IPv4 every octet position over 0..255 (thorough: all 2^32 addresses) at 3 bases; " +
		"IPv6 alphabet (::, ::1, one-octet-set x16, ffff:..., 2001:db8::1); dual = IPv4 alphabet x IPv6 alphabet; PCO all lists of <=3 units over 5 ids x 6 content lengths {0,1,2,4,16,255} (+ the Add* helpers); DNN lengths 0..100; " +
		"oracle: reference encodings per TS 24.501/23.003/38.414/24.008 and inverse(conversion(x)) == x; distinct = distinct inputs (by construction), all non-trivial"
	// PLMN
	ParallelFor(r, 1000*1100, func(l *report.Local, i int) {
		mcc, mnc := plmnByIndex(i)
		want := refPLMN(mcc, mnc)
		var got []byte
		if perr := recoverErr(func() { got = nasConvert.PlmnIDToNas(models.PlmnId{Mcc: mcc, Mnc: mnc}) }); perr != nil {
			r.Violate("PlmnIDToNas/panic", mcc+"/"+mnc, perr.Error(), nil)
			return
		}
		l.CaseN(true, uint64(got[1])<<8|uint64(got[2]))
		c17heldPlmn.next(r, "PlmnIDToNas/result-changed-by-a-later-call", got, mcc+"/"+mnc)
		if !bytes.Equal(got, want) {
			r.Violate(fmt.Sprintf("PlmnIDToNas/value/mnclen=%d", len(mnc)), mcc+"/"+mnc, fmt.Sprintf("got %x want %x", got, want), nil)
		}
	})
	r.Sample("PlmnIDToNas mcc=208 mnc=93 -> 02f839")
	// AMF-ID: region(8) set(10) pointer(6)  (TS 23.003 2.10.1)
	ParallelFor(r, 2<<24, func(l *report.Local, v int) {
		// every identifier in lower case and (second half) in upper case: hexadecimal digits in either case are the same value (TS 29.571)
		s := fmt.Sprintf("%06x", v)
		if v >= 1<<24 {
			v -= 1 << 24
			s = fmt.Sprintf("%06X", v)
			if v%7 == 3 {
				s = s[:2] + strings.ToLower(s[2:4]) + s[4:] // mixed case
			}
		}
		var reg uint8
		var set uint16
		var ptr uint8
		if perr := recoverErr(func() { reg, set, ptr = nasConvert.AmfIdToNas(s) }); perr != nil {
			r.Violate("AmfIdToNas/panic", s, perr.Error(), nil)
			return
		}
		l.CaseN(true, uint64(v>>12))
		if int(reg) != v>>16 || int(set) != (v>>6)&0x3ff || int(ptr) != v&0x3f {
			r.Violate("AmfIdToNas/value", s, fmt.Sprintf("region=%d set=%d pointer=%d", reg, set, ptr), nil)
		}
		if back := int(reg)<<16 | int(set)<<6 | int(ptr); back != v {
			r.Violate("AmfIdToNas/not-invertible", s, fmt.Sprintf("%06x", back), nil)
		}
	})
	r.Sample("AmfIdToNas cafe00 -> region 0xca set 0x3f8 pointer 0")
	// S-NSSAI
	sds := []string{"", "000000", "000001", "010203", "ffffff", "ABCDEF"}
	ParallelFor(r, 256*len(sds)+(1<<24), func(l *report.Local, i int) {
		var sst int
		var sd string
		if i < 256*len(sds) {
			sst, sd = i/len(sds), sds[i%len(sds)]
		} else {
			sst, sd = 1, fmt.Sprintf("%06x", i-256*len(sds))
		}
		var got []byte
		if perr := recoverErr(func() { got = nasConvert.SnssaiToNas(models.Snssai{Sst: int32(sst), Sd: sd}) }); perr != nil {
			r.Violate("SnssaiToNas/panic", fmt.Sprint(sst, sd), perr.Error(), nil)
			return
		}
		l.CaseN(true, uint64(len(got))<<8|uint64(sst))
		c17heldSnssai.next(r, "SnssaiToNas/result-changed-by-a-later-call", got, fmt.Sprintf("sst=%d sd=%q", sst, sd))
		want := []byte{1, byte(sst)}
		if sd != "" {
			want = append([]byte{4, byte(sst)}, hx(sd)...)
		}
		if !bytes.Equal(got, want) {
			r.Violate("SnssaiToNas/value", fmt.Sprintf("sst=%d sd=%q", sst, sd), fmt.Sprintf("got %x want %x", got, want), nil)
		}
	})
	r.Sample("SnssaiToNas sst=1 sd=010203 -> 0401010203")
	// transport layer addresses
	var v4s []string
	for _, base := range [][4]byte{{0, 0, 0, 0}, {10, 45, 0, 2}, {255, 255, 255, 255}} {
		for pos := 0; pos < 4; pos++ {
			for v := 0; v < 256; v++ {
				a := base
				a[pos] = byte(v)
				v4s = append(v4s, net.IP(a[:]).String())
			}
		}
	}
	v6s := []string{"::", "::1", "ffff:ffff:ffff:ffff:ffff:ffff:ffff:ffff", "2001:db8::1", "2001:db8:cafe::1", "fe80::1:2:3:4", "1:2:3:4:5:6:7:8",
		// IPv4-mapped IPv6 addresses (Go's To4() is non-nil for them and String() prints them dotted): still 128 bits on the wire
		"::ffff:192.0.2.1", "::ffff:0.0.0.0", "::ffff:255.255.255.255", "::ffff:10.45.0.2"}
	for i := 0; i < 16; i++ {
		a := make(net.IP, 16)
		a[i] = 0x80 >> uint(i%8)
		if i == 0 {
			a[15] = 1
		}
		v6s = append(v6s, a.String())
	}
	type addr struct{ v4, v6 string }
	var addrs []addr
	for _, a := range v4s {
		addrs = append(addrs, addr{a, ""})
	}
	for _, a := range v6s {
		addrs = append(addrs, addr{"", a})
	}
	for i, a := range v4s {
		if i%32 == 0 || i < 16 {
			for _, b := range v6s {
				addrs = append(addrs, addr{a, b})
			}
		}
	}
	{
		h := fnv.New64a()
		for _, a := range addrs {
			fmt.Fprint(h, a)
		}
		r.Consistent("address list", fmt.Sprintf("%d addresses, hash %x", len(addrs), h.Sum64()))
	}
	ParallelFor(r, len(addrs), func(l *report.Local, i int) {
		a := addrs[i]
		cs := fmt.Sprintf("ipv4=%q ipv6=%q", a.v4, a.v6)
		kind := map[bool]string{true: "v4", false: ""}[a.v4 != ""] + map[bool]string{true: "v6", false: ""}[a.v6 != ""]
		var want []byte
		if a.v4 != "" {
			want = append(want, net.ParseIP(a.v4).To4()...)
		}
		if a.v6 != "" {
			want = append(want, net.ParseIP(a.v6).To16()...)
		}
		var o4, o6 string
		perr := recoverErr(func() {
			t := ngapConvert.IPAddressToNgap(a.v4, a.v6)
			if int(t.Value.BitLength) != 8*len(want) || !bytes.Equal(t.Value.Bytes, want) {
				r.Violate("IPAddressToNgap/value/"+kind, cs, fmt.Sprintf("got %x/%d want %x", t.Value.Bytes, t.Value.BitLength, want), nil)
			}
			c17heldIP.next(r, "IPAddressToNgap/result-changed-by-a-later-call", t.Value.Bytes, cs)
			o4, o6 = ngapConvert.IPAddressToString(t)
		})
		l.Case(cs, true, o4+o6)
		if perr != nil {
			r.Violate("IPAddress/panic/"+kind, cs, perr.Error(), nil)
			return
		}
		if o4 != a.v4 || (a.v6 == "") != (o6 == "") || (a.v6 != "" && !net.ParseIP(o6).Equal(net.ParseIP(a.v6))) {
			r.Violate("IPAddressToString/not-inverse/"+kind, cs, fmt.Sprintf("got %q %q", o4, o6), nil)
		}
		// octets -> text -> octets gives the same bit string
		if perr := recoverErr(func() {
			t2 := ngapConvert.IPAddressToNgap(o4, o6)
			if int(t2.Value.BitLength) != 8*len(want) || !bytes.Equal(t2.Value.Bytes, want) {
				r.Violate("IPAddressToNgap/not-inverse-of-IPAddressToString/"+kind, cs, fmt.Sprintf("(%q,%q) -> %x/%d, the bit string was %x", o4, o6, t2.Value.Bytes, t2.Value.BitLength, want), nil)
			}
		}); perr != nil {
			r.Violate("IPAddress/panic/"+kind, cs, perr.Error(), nil)
		}
	})
	if ctx.Lead() {
		// one sequential history of pairs whose texts coincide when concatenated, overlap or swap roles (anything that
		// remembers results by a key derived from the two arguments without keeping them apart shows here)
		lq := r.Local()
		pairs := [][2]string{{"10.0.0.1", "1::1"}, {"10.0.0.11", "::1"}, {"10.0.0.1", "1::1"}, {"192.168.61.3", ""}, {"", "192.168.61.3"}, {"192.168.61.3", "192.168.61.3"},
			{"1.2.3.4", "5::6"}, {"1.2.3.45", "::6"}, {"1.2.3.4", ""}, {"", "1.2.3.4"}, {"", "::1.2.3.4"}, {"1.2.3.4", "::"}, {"", "::"}, {"0.0.0.0", ""}, {"", "0.0.0.0"}, {"10.0.0.11", "::1"}}
		for i, pq := range pairs {
			var want []byte
			if pq[0] != "" {
				want = append(want, net.ParseIP(pq[0]).To4()...)
			}
			if pq[1] != "" {
				want = append(want, net.ParseIP(pq[1]).To16()...)
			}
			cs := fmt.Sprintf("history step %d: IPAddressToNgap(%q, %q)", i, pq[0], pq[1])
			if perr := recoverErr(func() {
				t := ngapConvert.IPAddressToNgap(pq[0], pq[1])
				lq.Case(cs, true, fmt.Sprintf("%x", t.Value.Bytes))
				if int(t.Value.BitLength) != 8*len(want) || !bytes.Equal(t.Value.Bytes, want) {
					r.Violate("IPAddressToNgap/value-depends-on-earlier-calls", cs, fmt.Sprintf("got %x/%d want %x", t.Value.Bytes, t.Value.BitLength, want), nil)
				}
			}); perr != nil {
				r.Violate("IPAddress/panic/history", cs, perr.Error(), nil)
			}
		}
		lq.Merge()
	}
	r.Sample("IPAddressToNgap(10.45.0.2, 2001:db8::1) -> 160-bit string -> IPAddressToString")
	if ctx.Thorough {
		// every IPv4 address (2^32): octets, bit length and the inverse
		ParallelFor(r, 1<<24, func(l *report.Local, hi int) {
			var bad string
			for lo := 0; lo < 256 && bad == ""; lo++ {
				a := [4]byte{byte(hi >> 16), byte(hi >> 8), byte(hi), byte(lo)}
				txt := net.IP(a[:]).String()
				if perr := recoverErr(func() {
					t := ngapConvert.IPAddressToNgap(txt, "")
					o4, o6 := ngapConvert.IPAddressToString(t)
					if t.Value.BitLength != 32 || !bytes.Equal(t.Value.Bytes, a[:]) || o4 != txt || o6 != "" {
						bad = fmt.Sprintf("%s -> %x/%d -> %q %q", txt, t.Value.Bytes, t.Value.BitLength, o4, o6)
					}
				}); perr != nil {
					bad = txt + ": " + perr.Error()
				}
			}
			l.CaseN(true, uint64(hi&0xff))
			if bad != "" {
				r.Violate("IPAddress/all-ipv4", fmt.Sprintf("ipv4 %d.%d.%d.x", hi>>16, (hi>>8)&255, hi&255), bad, nil)
			}
		})
		r.Set("ipv4_addresses_exhaustive", "2^32")
	}
	// PCO: all lists of <=3 units
	ids := []uint16{0x000a, 0x000d, 0x0003, 0x0010, 0x8021}
	lens := []int{0, 1, 2, 4, 16, 255}
	type unit struct {
		id uint16
		n  int
	}
	var units []unit
	for _, id := range ids {
		for _, n := range lens {
			units = append(units, unit{id, n})
		}
	}
	nu := len(units)
	total := 1 + nu + nu*nu + nu*nu*nu
	// the lists of up to two units are converted a second time with the conversion logger at its most verbose level
	// (output discarded): what a conversion returns must not depend on how much it logs
	verboseFrom := total
	total += 1 + nu + nu*nu
	ParallelFor(r, total, func(l *report.Local, i int) {
		var list []unit
		if i >= verboseFrom {
			i -= verboseFrom
			naslog.ConvertLog.Logger.SetLevel(logrus.TraceLevel)
			defer naslog.ConvertLog.Logger.SetLevel(logrus.PanicLevel)
		}
		switch {
		case i == 0:
		case i < 1+nu:
			list = []unit{units[i-1]}
		case i < 1+nu+nu*nu:
			j := i - 1 - nu
			list = []unit{units[j/nu], units[j%nu]}
		default:
			j := i - 1 - nu - nu*nu
			list = []unit{units[j/(nu*nu)], units[(j/nu)%nu], units[j%nu]}
		}
		pco := nasConvert.NewProtocolConfigurationOptions()
		want := []byte{0x80}
		cs := "pco"
		for k, u := range list {
			c := pattern(3+k, u.n)
			pco.ProtocolOrContainerList = append(pco.ProtocolOrContainerList, &nasConvert.ProtocolOrContainerUnit{ProtocolOrContainerID: u.id, LengthOfContents: uint8(u.n), Contents: c})
			want = append(want, byte(u.id>>8), byte(u.id), byte(u.n))
			want = append(want, c...)
			cs += fmt.Sprintf(" [%04x len %d]", u.id, u.n)
		}
		var got []byte
		back := nasConvert.NewProtocolConfigurationOptions()
		var err error
		if perr := recoverErr(func() { got = pco.Marshal(); err = back.UnMarshal(got) }); perr != nil {
			r.Violate("PCO/panic", cs, perr.Error(), nil)
			return
		}
		l.Case(cs, true, fmt.Sprint(len(got)))
		c17heldPco.next(r, "PCO/result-changed-by-a-later-call", got, cs)
		if !bytes.Equal(got, want) {
			r.Violate("PCO/Marshal-value", cs, fmt.Sprintf("got %x want %x", got, want), nil)
		}
		if err != nil || len(back.ProtocolOrContainerList) != len(list) {
			r.Violate(fmt.Sprintf("PCO/UnMarshal-count/units=%d", len(list)), cs, fmt.Sprintf("err=%v units=%d", err, len(back.ProtocolOrContainerList)), nil)
			return
		}
		for k, u := range back.ProtocolOrContainerList {
			o := pco.ProtocolOrContainerList[k]
			if u.ProtocolOrContainerID != o.ProtocolOrContainerID || u.LengthOfContents != o.LengthOfContents || !bytes.Equal(u.Contents, o.Contents) {
				r.Violate("PCO/UnMarshal-unit", cs, fmt.Sprintf("unit %d: %+v want %+v", k, u, o), nil)
			}
		}
		// the decoded units are the caller's: extending the contents of one (append) must not reach into the others
		for k, u := range back.ProtocolOrContainerList {
			u.Contents = append(u.Contents, 0xee, 0xee, 0xee, 0xee, 0xee, 0xee)
			for k2, u2 := range back.ProtocolOrContainerList {
				if k2 != k && !bytes.Equal(u2.Contents[:min(len(u2.Contents), len(pco.ProtocolOrContainerList[k2].Contents))], pco.ProtocolOrContainerList[k2].Contents) {
					r.Violate("PCO/UnMarshal-units-share-storage", cs, fmt.Sprintf("after appending to the contents of unit %d, unit %d reads %x (was %x)", k, k2, u2.Contents, pco.ProtocolOrContainerList[k2].Contents), nil)
					return
				}
			}
		}
	})
	r.Sample("pco [000d len 4] [0010 len 2] -> Marshal -> 80 000d04.. 001002.. -> UnMarshal")
	// Add* helpers
	if ctx.Lead() {
		l := r.Local()
		pco := nasConvert.NewProtocolConfigurationOptions()
		pco.AddIPAddressAllocationViaNASSignallingUL()
		pco.AddDNSServerIPv4AddressRequest()
		pco.AddDNSServerIPv6AddressRequest()
		// the caller goes on using its address variables (the next server is the same net.IP with the last octet bumped)
		dns4, dns6 := net.ParseIP("8.8.4.4"), net.ParseIP("2001:4860:4860::8888")
		e1 := pco.AddDNSServerIPv4Address(dns4)
		e2 := pco.AddDNSServerIPv6Address(dns6)
		for i := range dns4 {
			dns4[i] ^= 0xff
		}
		for i := range dns6 {
			dns6[i] ^= 0xff
		}
		e3 := pco.AddIPv4LinkMTU(1400)
		got := pco.Marshal()
		want := hx("80" + "000a00" + "000d00" + "000300" + "000d0408080404" + "00031020014860486000000000000000008888" + "0010020578")
		l.Case("pco helpers", true, "")
		if e1 != nil || e2 != nil || e3 != nil || !bytes.Equal(got, want) {
			r.Violate("PCO/helpers", "AddIPAddressAllocationViaNASSignallingUL..AddIPv4LinkMTU", fmt.Sprintf("got %x want %x errs %v %v %v", got, want, e1, e2, e3), nil)
		}
		// DNN
		for n := 0; n <= 100; n++ {
			d := util_3gpp.Dnn(pattern(2, n))
			b, err := d.MarshalBinary()
			var back util_3gpp.Dnn
			err2 := back.UnmarshalBinary(b)
			cs := fmt.Sprintf("dnn len %d", n)
			l.Case(cs, true, fmt.Sprint(len(b)))
			if err != nil || err2 != nil || len(b) != n+1 || int(b[0]) != n || !bytes.Equal(b[1:], d) || !bytes.Equal(back, d) {
				r.Violate("Dnn/roundtrip", cs, fmt.Sprintf("%x -> %x", b, back), nil)
			}
		}
		l.Merge()
	}
	r.Assume("IPv4-mapped IPv6 addresses (::ffff:a.b.c.d) are compared at the octet level (128 bits on the wire, octets -> text -> octets is the identity): Go prints them in dotted form, so text equality is not demanded",
		"PCO contents use fixed byte patterns; container ids outside the 5-symbol alphabet are not enumerated")
}
