package props

import (
	"io"

	aperlog "free5gclib/aper/logger"
	naslog "free5gclib/nas/logger"
	ngaplog "free5gclib/ngap/logger"

	"github.com/sirupsen/logrus"
)

// The copied free5GC loggers write every Info line to stderr and to log files; the checks only need
// the return values, so all repository loggers are silenced in the harness process.
func init() {
	for _, e := range []*logrus.Entry{naslog.NasMsgLog, naslog.ConvertLog, naslog.SecurityLog, ngaplog.NgapLog, aperlog.AperLog} {
		if e != nil && e.Logger != nil {
			e.Logger.SetOutput(io.Discard)
			e.Logger.SetLevel(logrus.PanicLevel)
			e.Logger.ReplaceHooks(logrus.LevelHooks{})
		}
	}
}
