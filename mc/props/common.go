package props

import (
	"bytes"
	"encoding/hex"
	"fmt"
	"mc/report"
	"runtime"
	"strings"
	"sync"
)

func hx(s string) []byte {
	b, err := hex.DecodeString(s)
	if err != nil {
		panic(err)
	}
	return b
}

func a16(b []byte) (a [16]byte) { copy(a[:], b); return }

// snowMu serialises calls into the repository's SNOW 3G based functions: their LFSR/FSM state is
// package-level, and every property except C20 is about sequential use.
var snowMu sync.Mutex

func pattern(kind, n int) []byte {
	b := make([]byte, n)
	for i := range b {
		switch kind {
		case 0:
			b[i] = 0
		case 1:
			b[i] = 0xff
		case 2:
			b[i] = byte(i + 1)
		default:
			b[i] = byte(i*37 + kind*101 + 7)
		}
	}
	return b
}

// keyAlphabet: structured 128-bit values (zero, ones, published test keys, one-byte-set, one-hot).
func keyAlphabet(n int) [][16]byte {
	ks := [][16]byte{
		{}, a16(hx("ffffffffffffffffffffffffffffffff")),
		a16(hx("2bd6459f82c5b300952c49104881ff48")), a16(hx("d3c5d592327fb11c4035c6680af8c6d1")),
		a16(hx("465b5ce8b199b49faa5f0a2ee238a6bc")), a16(hx("000102030405060708090a0b0c0d0e0f")),
	}
	for i := 0; i < 16; i++ {
		var k [16]byte
		k[i] = 0x80 >> uint(i%8)
		ks = append(ks, k)
	}
	if n > len(ks) {
		n = len(ks)
	}
	return ks[:n]
}

// recoverErr runs f and turns a panic into an error that names the innermost frame inside the repository
// (function name, not line: finding keys must survive unrelated edits).
func recoverErr(f func()) (err error) {
	defer func() {
		if p := recover(); p != nil {
			site := ""
			pcs := make([]uintptr, 40)
			n := runtime.Callers(3, pcs)
			fr := runtime.CallersFrames(pcs[:n])
			for {
				f, more := fr.Next()
				if strings.Contains(f.File, report.RepoDir+"/") || strings.HasPrefix(f.Function, "free5gclib/") || strings.HasPrefix(f.Function, "tglib") || strings.HasPrefix(f.Function, "stgutg") {
					site = " in " + f.Function
					break
				}
				if !more {
					break
				}
			}
			err = fmt.Errorf("panic%s: %v", site, p)
		}
	}()
	f()
	return nil
}

// held remembers the octets an operation returned (the slice itself and a private copy) and, when the next
// operation has run, checks that they are still what was returned: a result that aliases a recycled or shared
// buffer changes under the caller's feet only after a LATER call. One instance per single-threaded shard process.
type held struct {
	out, snap []byte
	desc      string
}

func (h *held) next(r *report.Report, key string, out []byte, desc string) {
	if h.out != nil && !bytes.Equal(h.out, h.snap) {
		r.Violate(key, h.desc+" ; then "+desc, fmt.Sprintf("the octets returned by the earlier call were %x, after the later call the same slice holds %x", h.snap, h.out), nil)
	}
	if len(out) == 0 {
		h.out = nil
		return
	}
	h.out, h.snap, h.desc = out, append([]byte{}, out...), desc
}
