package props

import (
	"bytes"
	"fmt"

	"free5gclib/nas"
	"free5gclib/ngap/ngapType"
	"mc/refnas"
	"mc/report"
	"tglib"
)

func init() { register("C10", "model_checking", runC10) }

// downlink plain messages (hand-encoded per TS 24.501 clause 8, lengths with different residues mod 4 and 16)
func c10messages() [][]byte {
	return [][]byte{
		hx("7e0054"),           // Configuration Update Command, no optional IE (3 octets)
		hx("7e005d02000280a0"), // Security Mode Command: algs NEA0/NIA2, ngKSI 0, replayed capabilities 80 a0 (8 octets)
		hx("7e0042010177000bf200f110cafe0000000001"), // Registration Accept: result 3GPP, 5G-GUTI (19 octets)
		hx("7e004e"), // Service Accept
		hx("7e0046"), // Deregistration Accept (UE originating)
		hx("7e006801000c2e0100c1ffff91a12801007b1205585a"), // DL NAS Transport: N1 SM container of 12 octets, PDU session ID 5, 5GMM cause 0x5a (22 octets)
	}
}

type c10op struct {
	msg  int
	h    uint8 // 0 plain, 1..4
	step int   // advance of the AMF's downlink COUNT before protecting this message (1 normal, 2 and 200 skip)
}

func runC10(ctx *Ctx) {
	r := ctx.R
	msgs := c10messages()
	algs := [][2]uint8{{2, 0}, {2, 2}, {2, 1}, {1, 0}, {1, 1}, {1, 2}}
	starts := []uint32{0, 254, 0xfe, 0xffff, 0x00ff00}
	var ops []c10op
	for m := 0; m < 3; m++ {
		for _, h := range []uint8{1, 2} {
			for _, st := range []int{1, 2, 200} {
				ops = append(ops, c10op{m, h, st})
			}
		}
	}
	// (step 7 marks a RETRANSMITTED message with a new-context header: TS 24.501 4.4.3.1 gives every retransmission a new
	// COUNT, so it arrives with header type 3/4 and the COUNT after the previous message's, not 0)
	ops = append(ops, c10op{1, 3, 7}, c10op{1, 4, 7})
	ops = append(ops, c10op{1, 3, 1}, c10op{2, 4, 1}, c10op{0, 0, 0}, c10op{3, 2, 1}, c10op{4, 2, 1}, c10op{5, 2, 1}, c10op{5, 1, 255})
	// long downlink messages (DL NAS TRANSPORT with a payload container of n octets): histories of one and three messages only
	shortOps := len(ops)
	for _, n := range []int{245, 249, 250, 251, 300, 1015, 1019, 1100, 4000, 16373, 16379, 20000} {
		m := append([]byte{0x7e, 0x00, 0x68, 0x01, byte(n >> 8), byte(n)}, pattern(2, n)...)
		msgs = append(msgs, m)
		for _, h := range []uint8{1, 2} {
			ops = append(ops, c10op{len(msgs) - 1, h, 1})
		}
	}
	depthAES, depthSnow := 3, 3
	if ctx.Thorough {
		depthAES, depthSnow = 4, 3
	}
	kint, kenc := a16(hx("2bd6459f82c5b300952c49104881ff48")), a16(hx("d3c5d592327fb11c4035c6680af8c6d1"))
	lens := []int{}
	for _, m := range msgs {
		lens = append(lens, len(m))
	}
	r.Rule = fmt.Sprintf("the AMF side (independent refnas/refcrypto) protects every downlink history of length <=%d (<=%d for pairs using SNOW 3G) over %d operations (plain message of %v octets x header type {0 plain,1,2,3 new context,4 new context} x COUNT step {+1,+2,+200,+255 (skipped sequence numbers, wraps)}) x 6 algorithm pairs x starting DL COUNT %v; plus one- and three-message histories with payload containers of 245..4000 octets (messages around the 256- and 1024-octet marks), linear runs of 800 messages (3 SQN wraps), populations of 1100 UEs (40 for SNOW 3G pairs) with their own keys receiving two messages each, through NASDecode and through GetNasPdu on a DownlinkNASTransport (the NAS-PDU alone, after the two UE identifiers, and followed by Index-to-RFSP and Allowed-NSSAI); "+
		"oracle: returned message re-encodes to exactly the plain bytes the AMF protected, UE DL COUNT == the AMF's COUNT for that message (overflow +1 on wrap, 0 after a new-context header); non-trivial = history length >= 2", depthAES, depthSnow, len(ops), lens, starts)
	r.Assume("downlink plain messages are hand-encoded from TS 24.501 clause 8 tables", "the UE and the AMF start from the same COUNT (as after a security mode procedure)")
	if !ctx.IsChild() {
		ctx.Fork(Workers())
		r.Set("operations", len(ops))
		r.Sample("NIA2/NEA2 start DL COUNT 0xfe: [SecurityModeCommand h=3 (resets to 0)] [RegistrationAccept h=2 +1] [ConfigurationUpdateCommand h=2 +200]")
		return
	}
	l := r.Local()
	item := 0
	for _, alg := range algs {
		depth := depthAES
		if alg[0] == 1 || alg[1] == 1 {
			depth = depthSnow
		}
		for _, start := range starts {
			var rec func(seq []int)
			rec = func(seq []int) {
				if len(seq) > 0 {
					item++
					if ctx.Mine(item) {
						c10history(r, l, msgs, ops, alg, kint, kenc, start, seq, len(seq)%2 == 0)
					}
				}
				if len(seq) == depth {
					return
				}
				for i := 0; i < shortOps; i++ {
					rec(append(seq, i))
				}
			}
			rec(nil)
		}
		for li := shortOps; li < len(ops); li++ {
			for _, start := range []uint32{0, 0xfe} {
				item++
				if ctx.Mine(item) {
					c10history(r, l, msgs, ops, alg, kint, kenc, start, []int{li}, false)
					c10history(r, l, msgs, ops, alg, kint, kenc, start, []int{1, li, 4}, true)
				}
			}
		}
		item++
		if ctx.Mine(item) {
			seq := make([]int, 800)
			for i := range seq {
				seq[i] = []int{0, 3, 6, 9, 21, 22}[i%6] // +1 steps, types 1 and 2, several messages
			}
			c10history(r, l, msgs, ops, alg, kint, kenc, 0, seq, false)
		}
	}
	// many UEs, each with its own keys: every one receives a message, then each a second one (state kept per key must not be lost or mixed)
	for _, alg := range algs {
		n := 1100
		if alg[0] == 1 || alg[1] == 1 {
			n = 40 // the library's SNOW 3G is slow; the AES pairs carry the population
		}
		item++
		if ctx.Mine(item) {
			c10population(r, l, msgs, alg, n)
		}
	}
	l.Merge()
}

func c10population(r *report.Report, l *report.Local, msgs [][]byte, alg [2]uint8, n int) {
	ues := make([]*tglib.RanUeContext, n)
	scs := make([]refnas.SecCtx, n)
	for i := range ues {
		var ki, ke [16]byte
		for j := range ki {
			ki[j] = byte(i>>uint(8*(j%3))) ^ byte(j*29) ^ 0x11
			ke[j] = byte(i>>uint(8*(j%3))) ^ byte(j*31) ^ 0x80
		}
		ues[i] = tglib.NewRanUeContext(fmt.Sprintf("imsi-00101%010d", i+1), int64(i+1), alg[1], alg[0])
		ues[i].KnasInt, ues[i].KnasEnc = ki, ke
		ues[i].DLCount.Set(0, 0)
		scs[i] = refnas.SecCtx{NIA: int(alg[0]), NEA: int(alg[1]), KInt: ki, KEnc: ke}
	}
	for round := 0; round < 2; round++ {
		for i := range ues {
			plain := msgs[(i+round)%3]
			count := uint32(round)
			wire := refnas.Protect(plain, 2, scs[i], count, refnas.DirDownlink)
			cs := fmt.Sprintf("NIA%d/NEA%d: %d UEs with their own keys, message %d of UE %d", alg[0], alg[1], n, round+1, i)
			var m *nas.Message
			var err error
			perr := recoverErr(func() { m, err = tglib.NASDecode(ues[i], nas.GetSecurityHeaderType(wire), append([]byte{}, wire...)) })
			if perr != nil || err != nil {
				r.Violate(fmt.Sprintf("population/unprotect/error/nea=%d", alg[1]), cs, fmt.Sprint(perr, err), nil)
				return
			}
			var re []byte
			if perr := recoverErr(func() { re, err = m.PlainNasEncode() }); perr != nil || err != nil || !bytes.Equal(re, plain) {
				r.Violate(fmt.Sprintf("population/plain-not-recovered/nea=%d", alg[1]), cs, fmt.Sprintf("recovered %x, AMF protected %x (%v %v)", re, plain, perr, err), nil)
				return
			}
			if ues[i].DLCount.Get() != count {
				r.Violate("population/DL-count", cs, fmt.Sprintf("UE DL COUNT %#x, AMF used %#x", ues[i].DLCount.Get(), count), nil)
				return
			}
		}
	}
	l.Case(fmt.Sprintf("population NIA%d/NEA%d %d", alg[0], alg[1], n), true, "ok")
}

func c10history(r *report.Report, l *report.Local, msgs [][]byte, ops []c10op, alg [2]uint8, kint, kenc [16]byte, start uint32, seq []int, viaGetNasPdu bool) {
	ue := tglib.NewRanUeContext("imsi-001010000000001", 1, alg[1], alg[0])
	ue.KnasInt, ue.KnasEnc = kint, kenc
	ue.DLCount.Set(uint16(start>>8), uint8(start))
	ue.ULCount.Set(3, 3)
	sc := refnas.SecCtx{NIA: int(alg[0]), NEA: int(alg[1]), KInt: kint, KEnc: kenc}
	amfCount := start // COUNT of the last message the AMF sent (== the UE's estimate)
	first := true
	desc := fmt.Sprintf("NIA%d/NEA%d startDL=%#x:", alg[0], alg[1], start)
	short := len(seq) <= 6
	for step, oi := range seq {
		op := ops[oi]
		if short {
			desc += fmt.Sprintf(" recv(msg%d,h=%d,+%d)", op.msg, op.h, op.step)
		}
		// model state: (algorithm pair, COUNT of the AMF's last message, first-message flag); transition: one downlink message
		l.State(report.H(fmt.Sprint("c10", alg, amfCount, first)))
		l.Transition(report.H(fmt.Sprint("c10", alg, amfCount, first, oi)))
		plain := msgs[op.msg]
		wire := plain
		use := amfCount
		if op.h != 0 {
			switch {
			case op.h >= 3 && op.step == 7:
				use = (amfCount + 1) & 0xff // the retransmission of the message that took the new context into use: next COUNT, overflow 0
				if first || amfCount > 0xff {
					use = 0 // (only meaningful right after such a message; otherwise it is an ordinary new-context message)
				}
			case op.h >= 3:
				use = 0
			case first && start == 0 && op.step == 1:
				use = 0 // the first protected message after the context was taken into use carries COUNT 0
			default:
				use = (amfCount + uint32(op.step)) & 0xffffff
			}
			wire = refnas.Protect(plain, op.h, sc, use, refnas.DirDownlink)
		}
		cs := desc
		if !short {
			cs = fmt.Sprintf("%s linear history of %d, step %d (msg%d,h=%d)", desc, len(seq), step, op.msg, op.h)
		}
		var m *nas.Message
		var err error
		perr := recoverErr(func() {
			if viaGetNasPdu {
				var dl ngapType.DownlinkNASTransport
				ie := ngapType.DownlinkNASTransportIEs{}
				ie.Id.Value = ngapType.ProtocolIEIDNASPDU
				ie.Value.Present = ngapType.DownlinkNASTransportIEsPresentNASPDU
				ie.Value.NASPDU = &ngapType.NASPDU{Value: append([]byte{}, wire...)}
				// the other IEs of TS 38.413 9.2.5.2 around the NAS-PDU: the identifiers before it, optional ones after it
				if step%3 >= 1 {
					a := ngapType.DownlinkNASTransportIEs{}
					a.Id.Value = ngapType.ProtocolIEIDAMFUENGAPID
					a.Value.Present = ngapType.DownlinkNASTransportIEsPresentAMFUENGAPID
					a.Value.AMFUENGAPID = &ngapType.AMFUENGAPID{Value: 1}
					b := ngapType.DownlinkNASTransportIEs{}
					b.Id.Value = ngapType.ProtocolIEIDRANUENGAPID
					b.Value.Present = ngapType.DownlinkNASTransportIEsPresentRANUENGAPID
					b.Value.RANUENGAPID = &ngapType.RANUENGAPID{Value: 1}
					dl.ProtocolIEs.List = append(dl.ProtocolIEs.List, a, b)
				}
				dl.ProtocolIEs.List = append(dl.ProtocolIEs.List, ie)
				if step%3 == 2 || (len(seq) == 1 && viaGetNasPdu) {
					c := ngapType.DownlinkNASTransportIEs{}
					c.Id.Value = ngapType.ProtocolIEIDIndexToRFSP
					c.Value.Present = ngapType.DownlinkNASTransportIEsPresentIndexToRFSP
					c.Value.IndexToRFSP = &ngapType.IndexToRFSP{Value: 1}
					d := ngapType.DownlinkNASTransportIEs{}
					d.Id.Value = ngapType.ProtocolIEIDAllowedNSSAI
					d.Value.Present = ngapType.DownlinkNASTransportIEsPresentAllowedNSSAI
					d.Value.AllowedNSSAI = &ngapType.AllowedNSSAI{List: []ngapType.AllowedNSSAIItem{{SNSSAI: ngapType.SNSSAI{SST: ngapType.SST{Value: []byte{1}}}}}}
					dl.ProtocolIEs.List = append(dl.ProtocolIEs.List, c, d)
				}
				m = tglib.GetNasPdu(ue, &dl)
				if m == nil {
					err = fmt.Errorf("GetNasPdu returned nil")
				}
			} else {
				m, err = tglib.NASDecode(ue, nas.GetSecurityHeaderType(wire), append([]byte{}, wire...))
			}
		})
		if perr != nil || err != nil {
			r.Violate(fmt.Sprintf("unprotect/error/h=%d/nea=%d", op.h, alg[1]), cs, fmt.Sprint(perr, err), seq)
			break
		}
		var re []byte
		if perr := recoverErr(func() { re, err = m.PlainNasEncode() }); perr != nil || err != nil || !bytes.Equal(re, plain) {
			r.Violate(fmt.Sprintf("unprotect/plain-not-recovered/h=%d/nea=%d", op.h, alg[1]), cs, fmt.Sprintf("step %d: recovered %x, AMF protected %x (%v %v)", step, re, plain, perr, err), seq)
			break
		}
		if op.h != 0 {
			amfCount = use
			first = false
			if ue.DLCount.Get() != amfCount {
				r.Violate(fmt.Sprintf("unprotect/DL-count/h=%d", op.h), cs, fmt.Sprintf("step %d: UE DL COUNT %#x, AMF used %#x", step, ue.DLCount.Get(), amfCount), seq)
				break
			}
		}
	}
	l.State(report.H(fmt.Sprint("c10", alg, amfCount, first)))
	l.Trace()
	if short {
		l.Case(desc+fmt.Sprint(viaGetNasPdu), len(seq) >= 2, fmt.Sprint(amfCount))
	} else {
		l.Case(fmt.Sprintf("%s linear %d", desc, len(seq)), true, fmt.Sprint(amfCount))
	}
}
