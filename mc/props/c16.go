package props

import (
	"fmt"
	"hash/fnv"
	"strings"

	"mc/report"
	"stgutg"
	"tglib"
)

func init() { register("C16", "exploration", runC16) }

func runC16(ctx *Ctx) {
	r := ctx.R
	if ctx.Isolate() {
		return
	}
	type cfg struct {
		imsi   string
		mncLen int
	}
	cfgs := []cfg{
		{"001010000000001", 2}, {"001010000009990", 2}, {"999990000000000", 2}, {"001019999990000", 2}, {"001010000000000", 2},
		{"001001000000001", 3}, {"999999999990000", 3}, {"310410123456789", 3}, {"208930000000001", 2},
		{"00101000000001", 2}, {"0010010000001", 3}, {"001019999989999", 2}, {"001010000099999", 2}, {"001010000010000", 2},
	}
	pop := 10000
	// systematic part: for 2- and 3-digit MNCs and IMSIs of 11..15 digits, MSINs around every power of ten of the MSIN
	// (a carry into / out of every digit position happens somewhere in the population), as long as the MSIN digits can
	// accommodate the population
	seen := map[string]bool{}
	for _, c := range cfgs {
		seen[c.imsi] = true
	}
	for _, plmn := range []string{"00101", "20893", "001001", "310410"} {
		for total := 11; total <= 15; total++ {
			L := total - len(plmn)
			limit := int64(1)
			for i := 0; i < L; i++ {
				limit *= 10
			}
			for p, pw := 1, int64(10); p <= L; p, pw = p+1, pw*10 {
				for _, d := range []int64{-10000, -9999, -6, -1, 0, 1} {
					m := pw + d
					if p == L {
						m = pw - 10000 + d + 1 // the last values the MSIN can take with the whole population still fitting
					}
					if m < 0 || m+int64(pop)-1 >= limit {
						continue
					}
					imsi := fmt.Sprintf("%s%0*d", plmn, L, m)
					if !seen[imsi] {
						seen[imsi] = true
						cfgs = append(cfgs, cfg{imsi, len(plmn) - 3})
					}
				}
			}
		}
	}
	// binary boundaries: initial IMSIs whose numeric value lies 5000 (and 2704) below a multiple of 2^k, k = 24..49, so
	// that the population straddles it (an intermediate of 32 bits, a float mantissa ... shows only there)
	for _, plmn := range []string{"00101", "20893", "001001", "310410"} {
		for _, total := range []int{15, 14} {
			L := total - len(plmn)
			limit := int64(1)
			for i := 0; i < L; i++ {
				limit *= 10
			}
			var base int64
			fmt.Sscan(strings.TrimLeft(plmn, "0")+strings.Repeat("0", L), &base)
			for k := uint(24); k <= 49; k++ {
				step := int64(1) << k
				for _, below := range []int64{5000, 2704} {
					m := (base/step+1)*step - below
					if m < base || m+int64(pop) >= base+limit {
						continue
					}
					imsi := fmt.Sprintf("%0*d", total, m)
					if !seen[imsi] {
						seen[imsi] = true
						cfgs = append(cfgs, cfg{imsi, len(plmn) - 3})
					}
				}
			}
		}
	}
	creds := [][3]string{
		{"465B5CE8B199B49FAA5F0A2EE238A6BC", "E8ED289DEBA952E4283B54E88E6183CA", "E8ED289DEBA952E4283B54E88E6183CA"},
		{"00000000000000000000000000000000", "", "ffffffffffffffffffffffffffffffff"},
		{"465b5ce8b199b49faa5f0a2ee238a6bc", "cd63cb71954a9f4e48a5994e37a02baf", ""},
	}
	r.Rule = fmt.Sprintf("for each of %d initial IMSIs (leading zeros, 2-/3-digit MNC, 13..15 digits, MSIN ending ...0000/...9990/...99999, MSINs around every power of ten of the MSIN for 4 PLMNs and 11..15 digits, and IMSIs whose value lies just below a multiple of 2^k, k=24..49, so that the population straddles it) x %d credential triples: CreateUE for EVERY index 0..%d exactly as main() calls it; "+
		"plus every history of <=3 CreateUE calls over 8 credential triples with shared substrings; oracle: SUPIs pairwise distinct, 'imsi-' + same number of digits, same MCC/MNC prefix, all decimal; RAN-UE-NGAP-IDs pairwise distinct; K/OP/OPc carried unchanged; security capability octets == 0x80>>alg for the context's algorithms (also for all 4x4 algorithm pairs); "+
		"non-trivial = index>0; distinct = (config, credential, index)", len(cfgs), len(creds), pop-1)
	type job struct {
		c  cfg
		cr [3]string
	}
	var jobs []job
	for ci, c := range cfgs {
		for ki, cr := range creds {
			if ci >= 14 && ki != ci%len(creds) {
				continue // the systematic IMSIs take one credential triple each
			}
			jobs = append(jobs, job{c, cr})
		}
	}
	{
		h := fnv.New64a()
		for _, j := range jobs {
			fmt.Fprint(h, j.c, j.cr)
		}
		r.Consistent("job list", fmt.Sprintf("%d jobs, hash %x", len(jobs), h.Sum64()))
	}
	ParallelFor(r, len(jobs), func(l *report.Local, ji int) {
		j := jobs[ji]
		supis := map[string]int{}
		rans := map[int64]int{}
		plmn := j.c.imsi[:3+j.c.mncLen]
		for i := 0; i < pop; i++ {
			var ue *tglib.RanUeContext
			cs := fmt.Sprintf("imsi=%s mncLen=%d index=%d", j.c.imsi, j.c.mncLen, i)
			if perr := recoverErr(func() { ue = stgutg.CreateUE(j.c.imsi, i, j.cr[0], j.cr[1], j.cr[2]) }); perr != nil {
				r.Violate("CreateUE/panic", cs, perr.Error(), nil)
				break
			}
			l.CaseN(i > 0, uint64(ue.RanUeNgapId))
			digits := strings.TrimPrefix(ue.Supi, "imsi-")
			if !strings.HasPrefix(ue.Supi, "imsi-") || len(digits) != len(j.c.imsi) || strings.Trim(digits, "0123456789") != "" {
				r.Violate("supi/format", cs, ue.Supi, nil)
			} else if !strings.HasPrefix(digits, plmn) {
				r.Violate("supi/left-the-plmn", cs, ue.Supi, nil)
			}
			if prev, dup := supis[ue.Supi]; dup {
				r.Violate("supi/not-distinct", cs, fmt.Sprintf("%s also given to index %d", ue.Supi, prev), nil)
			}
			supis[ue.Supi] = i
			if prev, dup := rans[ue.RanUeNgapId]; dup {
				r.Violate("ranUeNgapId/not-distinct", cs, fmt.Sprintf("%d also given to index %d", ue.RanUeNgapId, prev), nil)
			}
			rans[ue.RanUeNgapId] = i
			if ue.RanUeNgapId < 0 || ue.RanUeNgapId > 0xffffffff {
				r.Violate("ranUeNgapId/out-of-range", cs, fmt.Sprint(ue.RanUeNgapId), nil)
			}
			s := ue.AuthenticationSubs
			if s.PermanentKey == nil || s.PermanentKey.PermanentKeyValue != j.cr[0] || s.Opc == nil || s.Opc.OpcValue != j.cr[1] ||
				s.Milenage == nil || s.Milenage.Op == nil || s.Milenage.Op.OpValue != j.cr[2] {
				r.Violate("credentials/changed", cs, fmt.Sprintf("%+v", s), nil)
			}
			capab := ue.GetUESecurityCapability()
			if len(capab.Buffer) < 2 || capab.Buffer[0] != 0x80>>ue.CipheringAlg || capab.Buffer[1] != 0x80>>ue.IntegrityAlg {
				r.Violate("capability/bits", cs, fmt.Sprintf("enc=%d int=%d capability=%x", ue.CipheringAlg, ue.IntegrityAlg, capab.Buffer), nil)
			}
		}
	})
	r.Sample("imsi=001010000000001 mncLen=2 indices 0..9999: supi, ranUeNgapId, credentials, capability")
	// Histories: every sequence of <=3 CreateUE calls over a credential alphabet whose members share
	// substrings (same hex string once as OPc and once as OP, prefixes moved between K and OPc, empty strings),
	// so that anything remembered between calls (caches, shared pointers) shows; all contexts are re-checked at the end.
	X, Y := "e8ed289deba952e4283b54e88e6183ca", "465b5ce8b199b49faa5f0a2ee238a6bc"
	halpha := [][3]string{{Y, X, ""}, {Y, "", X}, {Y, X, X}, {"0011", "2233445566778899aabbccddeeff0011", ""}, {"00112233", "445566778899aabbccddeeff0011", ""},
		{"", Y, X}, {Y + X, "", ""}, {Y, X, Y}}
	if !ctx.Lead() {
		return
	}
	lh := r.Local()
	nseq := 0
	var rec func(seq []int)
	rec = func(seq []int) {
		if len(seq) > 0 {
			nseq++
			var ues []*tglib.RanUeContext
			cs := "history:"
			for i, ci := range seq {
				c := halpha[ci]
				cs += fmt.Sprintf(" CreateUE(k=%q,opc=%q,op=%q)", c[0], c[1], c[2])
				ues = append(ues, stgutg.CreateUE("001010000000001", i, c[0], c[1], c[2]))
			}
			for i, ci := range seq {
				c := halpha[ci]
				a := ues[i].AuthenticationSubs
				if a.PermanentKey == nil || a.PermanentKey.PermanentKeyValue != c[0] || a.Opc == nil || a.Opc.OpcValue != c[1] || a.Milenage == nil || a.Milenage.Op == nil || a.Milenage.Op.OpValue != c[2] {
					r.Violate("credentials/changed-by-history", cs, fmt.Sprintf("UE %d carries k=%v opc=%v op=%v", i, a.PermanentKey, a.Opc, a.Milenage), seq)
				}
			}
			lh.Case(cs, len(seq) > 1, fmt.Sprint(seq))
		}
		if len(seq) == 3 {
			return
		}
		for i := range halpha {
			rec(append(append([]int{}, seq...), i))
		}
	}
	rec(nil)
	lh.Merge()
	r.Set("creation_histories", nseq)
	r.Sample("history: CreateUE(k=K,opc=X,op=\"\") CreateUE(k=K,opc=\"\",op=X) -> each context carries exactly its own strings")
	l := r.Local()
	for enc := uint8(0); enc < 4; enc++ {
		for in := uint8(0); in < 4; in++ {
			ue := tglib.NewRanUeContext("imsi-001010000000001", 1, enc, in)
			capab := ue.GetUESecurityCapability()
			cs := fmt.Sprintf("capability enc=%d int=%d", enc, in)
			l.Case(cs, true, fmt.Sprintf("%x", capab.Buffer))
			if len(capab.Buffer) != 2 || capab.Len != 2 || capab.Buffer[0] != 0x80>>enc || capab.Buffer[1] != 0x80>>in {
				r.Violate("capability/bits", cs, fmt.Sprintf("%x", capab.Buffer), nil)
			}
		}
	}
	// the same on ONE context whose algorithms are changed between calls (the only way to run a created UE with other
	// algorithms), earlier results kept and looked at again
	{
		ue := tglib.NewRanUeContext("imsi-001010000000001", 1, 0, 2)
		var capHeld held
		for round := 0; round < 2; round++ {
			for enc := uint8(0); enc < 4; enc++ {
				for in := uint8(0); in < 4; in++ {
					ue.CipheringAlg, ue.IntegrityAlg = enc, in
					capab := ue.GetUESecurityCapability()
					cs := fmt.Sprintf("one context, algorithms set to enc=%d int=%d (round %d), then GetUESecurityCapability", enc, in, round)
					l.Case(cs, true, fmt.Sprintf("%x", capab.Buffer))
					if len(capab.Buffer) != 2 || capab.Buffer[0] != 0x80>>enc || capab.Buffer[1] != 0x80>>in {
						r.Violate("capability/bits-after-algorithm-change", cs, fmt.Sprintf("%x", capab.Buffer), nil)
					}
					capHeld.next(r, "capability/result-changed-by-a-later-call", capab.Buffer, cs)
				}
			}
		}
	}
	l.Merge()
	r.Sample("capability enc=1 int=2 -> octets 40 20")
}
