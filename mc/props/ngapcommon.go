package props

import (
	"bytes"
	"fmt"
	"mc/report"
	"os"
	"path/filepath"
	"reflect"
	"regexp"
	"strings"
	"sync"

	"free5gclib/aper"
	"free5gclib/ngap"
	"free5gclib/ngap/ngapType"
	"mc/gobridge"
	"mc/refper"
)

var frozenSchemaPath = filepath.Join(report.VerifDir, "mc/spec/ngap_schema.json")
var liveNgapTypeDir = filepath.Join(report.RepoDir, "src/free5gclib/ngap/ngapType")

var (
	schemaOnce sync.Once
	frozenS    *refper.Schema
	schemaErr  error
	drift      []string
	added      []string
)

// loadSchema loads the frozen schema and diffs it against the live source of ngapType.
func loadSchema() (*refper.Schema, error) {
	schemaOnce.Do(func() {
		frozenS, schemaErr = refper.LoadSchema(frozenSchemaPath)
		if schemaErr != nil {
			return
		}
		if _, err := os.Stat(liveNgapTypeDir); err == nil {
			live, err := refper.ParseGoDir(liveNgapTypeDir)
			if err != nil {
				schemaErr = err
				return
			}
			drift, added = refper.Diff(frozenS, live)
		}
	})
	return frozenS, schemaErr
}

// transferTypes: Go types of the containers encoded on their own with tag "valueExt".
var transferTypes = map[string]reflect.Type{
	"HandoverCommandTransfer":                                reflect.TypeOf(ngapType.HandoverCommandTransfer{}),
	"HandoverPreparationUnsuccessfulTransfer":                reflect.TypeOf(ngapType.HandoverPreparationUnsuccessfulTransfer{}),
	"HandoverRequestAcknowledgeTransfer":                     reflect.TypeOf(ngapType.HandoverRequestAcknowledgeTransfer{}),
	"HandoverRequiredTransfer":                               reflect.TypeOf(ngapType.HandoverRequiredTransfer{}),
	"HandoverResourceAllocationUnsuccessfulTransfer":         reflect.TypeOf(ngapType.HandoverResourceAllocationUnsuccessfulTransfer{}),
	"PDUSessionResourceModifyConfirmTransfer":                reflect.TypeOf(ngapType.PDUSessionResourceModifyConfirmTransfer{}),
	"PDUSessionResourceModifyIndicationTransfer":             reflect.TypeOf(ngapType.PDUSessionResourceModifyIndicationTransfer{}),
	"PDUSessionResourceModifyIndicationUnsuccessfulTransfer": reflect.TypeOf(ngapType.PDUSessionResourceModifyIndicationUnsuccessfulTransfer{}),
	"PDUSessionResourceModifyRequestTransfer":                reflect.TypeOf(ngapType.PDUSessionResourceModifyRequestTransfer{}),
	"PDUSessionResourceModifyResponseTransfer":               reflect.TypeOf(ngapType.PDUSessionResourceModifyResponseTransfer{}),
	"PDUSessionResourceModifyUnsuccessfulTransfer":           reflect.TypeOf(ngapType.PDUSessionResourceModifyUnsuccessfulTransfer{}),
	"PDUSessionResourceNotifyReleasedTransfer":               reflect.TypeOf(ngapType.PDUSessionResourceNotifyReleasedTransfer{}),
	"PDUSessionResourceNotifyTransfer":                       reflect.TypeOf(ngapType.PDUSessionResourceNotifyTransfer{}),
	"PDUSessionResourceReleaseCommandTransfer":               reflect.TypeOf(ngapType.PDUSessionResourceReleaseCommandTransfer{}),
	"PDUSessionResourceReleaseResponseTransfer":              reflect.TypeOf(ngapType.PDUSessionResourceReleaseResponseTransfer{}),
	"PDUSessionResourceSetupRequestTransfer":                 reflect.TypeOf(ngapType.PDUSessionResourceSetupRequestTransfer{}),
	"PDUSessionResourceSetupResponseTransfer":                reflect.TypeOf(ngapType.PDUSessionResourceSetupResponseTransfer{}),
	"PDUSessionResourceSetupUnsuccessfulTransfer":            reflect.TypeOf(ngapType.PDUSessionResourceSetupUnsuccessfulTransfer{}),
	"PathSwitchRequestAcknowledgeTransfer":                   reflect.TypeOf(ngapType.PathSwitchRequestAcknowledgeTransfer{}),
	"PathSwitchRequestSetupFailedTransfer":                   reflect.TypeOf(ngapType.PathSwitchRequestSetupFailedTransfer{}),
	"PathSwitchRequestTransfer":                              reflect.TypeOf(ngapType.PathSwitchRequestTransfer{}),
	"PathSwitchRequestUnsuccessfulTransfer":                  reflect.TypeOf(ngapType.PathSwitchRequestUnsuccessfulTransfer{}),
	"SourceNGRANNodeToTargetNGRANNodeTransparentContainer":   reflect.TypeOf(ngapType.SourceNGRANNodeToTargetNGRANNodeTransparentContainer{}),
	"TargetNGRANNodeToSourceNGRANNodeTransparentContainer":   reflect.TypeOf(ngapType.TargetNGRANNodeToSourceNGRANNodeTransparentContainer{}),
	"RANStatusTransferTransparentContainer":                  reflect.TypeOf(ngapType.RANStatusTransferTransparentContainer{}),
	"SONConfigurationTransfer":                               reflect.TypeOf(ngapType.SONConfigurationTransfer{}),
}

// libEncodePDU encodes an abstract PDU with the library (through its Go types).
func libEncodePDU(s *refper.Schema, n *refper.Node) (b []byte, err error, panicked bool) {
	var pdu ngapType.NGAPPDU
	gobridge.NilForEmpty, gobridge.EmptyOctetsSeen = false, 0
	if e := gobridge.ToGo(s, "NGAPPDU", n, reflect.ValueOf(&pdu).Elem()); e != nil {
		return nil, fmt.Errorf("harness: %v", e), false
	}
	if perr := recoverErr(func() { b, err = ngap.Encoder(pdu) }); perr != nil {
		return nil, perr, true
	}
	ngapSecondEncode = ""
	if err == nil {
		// the same Go value once more: encoding must not change its argument
		var b2 []byte
		var err2 error
		if perr := recoverErr(func() { b2, err2 = ngap.Encoder(pdu) }); perr != nil || err2 != nil || !bytes.Equal(b, b2) {
			ngapSecondEncode = fmt.Sprintf("first encode %x, second encode of the same value %x (%v %v)", b, b2, perr, err2)
		}
		if gobridge.EmptyOctetsSeen > 0 {
			// the same value with its zero-length OCTET STRINGs held as nil slices (a field never assigned) instead of empty ones
			var pdu3 ngapType.NGAPPDU
			gobridge.NilForEmpty = true
			e3 := gobridge.ToGo(s, "NGAPPDU", n, reflect.ValueOf(&pdu3).Elem())
			gobridge.NilForEmpty = false
			var b3 []byte
			var err3 error
			if perr := recoverErr(func() { b3, err3 = ngap.Encoder(pdu3) }); e3 == nil && (perr != nil || err3 != nil || !bytes.Equal(b, b3)) {
				ngapSecondEncode = fmt.Sprintf("encoded %x with empty OCTET STRINGs as empty slices, %x (%v %v) with the same ones as nil slices", b, b3, perr, err3)
			}
		}
	}
	return
}

// ngapSecondEncode: set by libEncodePDU / libEncodeTransfer when encoding the same Go value a second time gave
// something else (single-threaded shard processes: a package variable is enough).
var ngapSecondEncode string

func libDecodePDU(s *refper.Schema, b []byte) (n *refper.Node, err error, panicked bool) {
	var pdu *ngapType.NGAPPDU
	if perr := recoverErr(func() { pdu, err = ngap.Decoder(b) }); perr != nil {
		return nil, perr, true
	}
	if err != nil {
		return nil, err, false
	}
	n, e := gobridge.FromGo(s, "NGAPPDU", reflect.ValueOf(pdu))
	// the decoded Go value handed straight back to the encoder (what forwarding code does; decoded BIT STRINGs carry
	// the following field's bits in the unused part of their last octet)
	ngapDirectReencode, ngapDirectReencodeErr = nil, nil
	if perr := recoverErr(func() { ngapDirectReencode, ngapDirectReencodeErr = ngap.Encoder(*pdu) }); perr != nil {
		ngapDirectReencodeErr = perr
	}
	ngapDecodeAliases = ""
	if e == nil {
		// the caller re-uses its receive buffer: the decoded value must not change with it
		keep := append([]byte{}, b...)
		for i := range b {
			b[i] ^= 0xa5
		}
		if n2, e2 := gobridge.FromGo(s, "NGAPPDU", reflect.ValueOf(pdu)); e2 != nil || !refper.Equal(n, n2) {
			ngapDecodeAliases = "after the input buffer was overwritten the decoded PDU reads differently: " + refper.FirstDiff(n2, n, "")
		}
		copy(b, keep)
	}
	return n, e, false
}

// ngapDirectReencode: what the library's encoder makes of the value its decoder just returned (set by libDecodePDU / libDecodeTransfer).
var ngapDirectReencode []byte
var ngapDirectReencodeErr error

// ngapDecodeAliases: set by libDecodePDU / libDecodeTransfer when the decoded value shares memory with the input.
var ngapDecodeAliases string

func libEncodeTransfer(s *refper.Schema, typ string, n *refper.Node) (b []byte, err error, panicked bool) {
	t := transferTypes[typ]
	v := reflect.New(t)
	gobridge.NilForEmpty, gobridge.EmptyOctetsSeen = false, 0
	if e := gobridge.ToGo(s, typ, n, v.Elem()); e != nil {
		return nil, fmt.Errorf("harness: %v", e), false
	}
	if perr := recoverErr(func() { b, err = aper.MarshalWithParams(v.Elem().Interface(), "valueExt") }); perr != nil {
		return nil, perr, true
	}
	ngapSecondEncode = ""
	if err == nil {
		var b2 []byte
		var err2 error
		if perr := recoverErr(func() { b2, err2 = aper.MarshalWithParams(v.Elem().Interface(), "valueExt") }); perr != nil || err2 != nil || !bytes.Equal(b, b2) {
			ngapSecondEncode = fmt.Sprintf("first encode %x, second encode of the same value %x (%v %v)", b, b2, perr, err2)
		}
	}
	return
}

func libDecodeTransfer(s *refper.Schema, typ string, b []byte) (n *refper.Node, err error, panicked bool) {
	v := reflect.New(transferTypes[typ])
	if perr := recoverErr(func() { err = aper.UnmarshalWithParams(b, v.Interface(), "valueExt") }); perr != nil {
		return nil, perr, true
	}
	if err != nil {
		return nil, err, false
	}
	n, e := gobridge.FromGo(s, typ, v)
	ngapDirectReencode, ngapDirectReencodeErr = nil, nil
	{
		// (a bare transfer container decoded by aper refers to its input by design, and the encoder clears unused bits
		// of BIT STRINGs in place: the input is put back afterwards so that this step is not mistaken for the decoder's doing)
		keepIn := append([]byte{}, b...)
		if perr := recoverErr(func() { ngapDirectReencode, ngapDirectReencodeErr = aper.MarshalWithParams(v.Elem().Interface(), "valueExt") }); perr != nil {
			ngapDirectReencodeErr = perr
		}
		copy(b, keepIn)
	}
	ngapDecodeAliases = ""
	if e == nil {
		keep := append([]byte{}, b...)
		for i := range b {
			b[i] ^= 0xa5
		}
		if n2, e2 := gobridge.FromGo(s, typ, v); e2 != nil || !refper.Equal(n, n2) {
			ngapDecodeAliases = "after the input buffer was overwritten the decoded value reads differently: " + refper.FirstDiff(n2, n, "")
		}
		copy(b, keep)
	}
	return n, e, false
}

var idxRe = regexp.MustCompile(`\[\d+\]`)

// leafClass turns a pick label into a finding-key component: the path without indices, last two elements.
func leafClass(label string) string {
	label = idxRe.ReplaceAllString(label, "")
	parts := strings.Split(label, ".")
	if len(parts) > 2 {
		parts = parts[len(parts)-2:]
	}
	return strings.Join(parts, ".")
}

var numRe = regexp.MustCompile(`\b[0-9]+\b`)

// errClass normalises an error text into a finding-key component (numbers removed, truncated): the
// message names the refusing call site, which is what identifies a finding.
func errClass(err error) string {
	if err == nil {
		return "nil"
	}
	t := numRe.ReplaceAllString(err.Error(), "N")
	t = strings.ReplaceAll(t, " ", "-")
	if len(t) > 70 {
		t = t[:70]
	}
	return t
}

func firstDiff(a, b []byte) int {
	for i := 0; i < len(a) && i < len(b); i++ {
		if a[i] != b[i] {
			return i
		}
	}
	if len(a) != len(b) {
		if len(a) < len(b) {
			return len(a)
		}
		return len(b)
	}
	return -1
}

func shortHex(b []byte) string {
	if len(b) > 120 {
		return fmt.Sprintf("%x…(%d octets)", b[:120], len(b))
	}
	return fmt.Sprintf("%x", b)
}
