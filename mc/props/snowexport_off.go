//go:build !snowexport

package props

var snowTables *struct {
	SR, SQ   func(byte) byte
	Mul, Div func(byte) uint32
}
