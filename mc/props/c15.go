package props

import (
	"bytes"
	"fmt"
	"hash/fnv"

	"free5gclib/milenage"
	"mc/refcrypto"
	"mc/report"
)

func init() { register("C15", "exploration", runC15) }

// vec128: structured 128-bit alphabet: zero, ones, counting, TS 35.207 set 1 values, one-hot bits.
func vec128(base []byte, onehot int) [][]byte {
	out := [][]byte{base, make([]byte, 16), bytes.Repeat([]byte{0xff}, 16), hx("000102030405060708090a0b0c0d0e0f")}
	step := 128 / onehot
	for b := 0; b < 128; b += step {
		v := make([]byte, 16)
		v[b/8] = 0x80 >> uint(b%8)
		out = append(out, v)
	}
	return out
}

func sqn6(v uint64) []byte {
	return []byte{byte(v >> 40), byte(v >> 32), byte(v >> 24), byte(v >> 16), byte(v >> 8), byte(v)}
}
func sqnVal(b []byte) uint64 {
	var v uint64
	for _, x := range b[:6] {
		v = v<<8 | uint64(x)
	}
	return v
}

type c15in struct{ k, op, rand, sqn, amf []byte }

func (i c15in) String() string {
	return fmt.Sprintf("K=%x OP=%x RAND=%x SQN=%x AMF=%x", i.k, i.op, i.rand, i.sqn, i.amf)
}

// c15funcs checks F1, F2345, GenerateOPC and MilenageGenerate for one input.
func c15funcs(r *report.Report, l *report.Local, in c15in) {
	var opc []byte
	var err error
	if perr := recoverErr(func() { opc, err = milenage.GenerateOPC(in.k, in.op) }); perr != nil || err != nil {
		r.Violate("GenerateOPC/error", in.String(), fmt.Sprint(perr, err), nil)
		return
	}
	wantOpc := refcrypto.OPc(in.k, in.op)
	if !bytes.Equal(opc, wantOpc) {
		r.Violate("GenerateOPC/value", in.String(), fmt.Sprintf("got %x want %x", opc, wantOpc), nil)
		opc = wantOpc
	}
	m := refcrypto.Milenage(in.k, wantOpc, in.rand, in.sqn, in.amf)
	macA, macS := make([]byte, 8), make([]byte, 8)
	res, ck, ik, ak, aks := make([]byte, 8), make([]byte, 16), make([]byte, 16), make([]byte, 6), make([]byte, 6)
	perr := recoverErr(func() {
		if e := milenage.F1(opc, in.k, in.rand, in.sqn, in.amf, macA, macS); e != nil {
			panic(e)
		}
		if e := milenage.F2345(opc, in.k, in.rand, res, ck, ik, ak, aks); e != nil {
			panic(e)
		}
	})
	if perr != nil {
		r.Violate("F1-F2345/error", in.String(), perr.Error(), nil)
		return
	}
	cmp := func(name string, got, want []byte) {
		if !bytes.Equal(got, want) {
			r.Violate(name+"/value"+c15keyTag, in.String(), fmt.Sprintf("got %x want %x", got, want), nil)
		}
	}
	cmp("f1", macA, m.MACA)
	cmp("f1star", macS, m.MACS)
	cmp("f2", res, m.RES)
	cmp("f3", ck, m.CK)
	cmp("f4", ik, m.IK)
	cmp("f5", ak, m.AK)
	cmp("f5star", aks, m.AKStar)
	// MilenageGenerate
	autn := make([]byte, 16)
	res2, ck2, ik2, ak2 := make([]byte, 16), make([]byte, 16), make([]byte, 16), make([]byte, 6)
	// the RES buffer and the length handed in are the caller's capacity (8, or a 16-octet buffer as the EPS AKA code uses);
	// the length reported back is that of RES
	rl := []uint{8, 16, 9}[c15callSeq%3]
	c15callSeq++
	res2 = res2[:rl]
	// every argument is a window into a larger buffer of the caller (a subscriber record SQN||AMF, a message): what lies
	// behind the window is not the library's to write
	win := func(b []byte) (w, whole, keep []byte) {
		if c15callSeq%2 == 0 {
			// every other call: buffers of exactly the argument's length (reading or writing behind them panics)
			whole = append(make([]byte, 0, len(b)), b...)
			return whole[:len(b):len(b)], whole, append([]byte{}, whole...)
		}
		whole = append(append([]byte{}, b...), 0x5a, 0x5a, 0x5a, 0x5a, 0x5a, 0x5a, 0x5a, 0x5a)
		return whole[:len(b):len(whole)], whole, append([]byte{}, whole...)
	}
	wSqn, sqnWhole, sqnKeep := win(in.sqn)
	wAmf, amfWhole, amfKeep := win(in.amf)
	wRand, randWhole, randKeep := win(in.rand)
	if perr := recoverErr(func() { milenage.MilenageGenerate(opc, wAmf, in.k, wSqn, wRand, autn, ik2, ck2, ak2, res2, &rl) }); perr != nil {
		r.Violate("MilenageGenerate/panic", in.String(), perr.Error(), nil)
		return
	}
	if !bytes.Equal(sqnWhole, sqnKeep) || !bytes.Equal(amfWhole, amfKeep) || !bytes.Equal(randWhole, randKeep) {
		r.Violate("MilenageGenerate/writes-into-the-caller's-buffers"+c15keyTag, in.String(), fmt.Sprintf("SQN buffer %x (was %x) AMF buffer %x (was %x) RAND buffer %x (was %x)", sqnWhole, sqnKeep, amfWhole, amfKeep, randWhole, randKeep), nil)
	}
	res2 = res2[:8]
	{
		// the same through F1 directly (the resynchronisation path calls it on the record's own SQN)
		wS, sW, sK := win(in.sqn)
		m1, m2 := make([]byte, 8), make([]byte, 8)
		if perr := recoverErr(func() { milenage.F1(opc, in.k, in.rand, wS, in.amf, m1, m2) }); perr == nil && !bytes.Equal(sW, sK) {
			r.Violate("f1/writes-into-the-caller's-buffers"+c15keyTag, in.String(), fmt.Sprintf("SQN buffer %x (was %x)", sW, sK), nil)
		}
	}
	cmp("MilenageGenerate/autn", autn, refcrypto.AUTN(in.k, wantOpc, in.rand, in.sqn, in.amf))
	cmp("MilenageGenerate/res", res2, m.RES)
	cmp("MilenageGenerate/ck", ck2, m.CK)
	cmp("MilenageGenerate/ik", ik2, m.IK)
	if rl != 8 {
		r.Violate("MilenageGenerate/res_len", in.String(), fmt.Sprint(rl), nil)
	}
	// the caller assembles the token in place: SQN and AMF are handed over as the first octets of the AUTN buffer itself
	{
		a2 := make([]byte, 16)
		copy(a2[0:6], in.sqn)
		copy(a2[6:8], in.amf)
		r3, c3, i3, k3 := make([]byte, 8), make([]byte, 16), make([]byte, 16), make([]byte, 6)
		rl3 := uint(8)
		if perr := recoverErr(func() { milenage.MilenageGenerate(opc, a2[6:8], in.k, a2[0:6], in.rand, a2, i3, c3, k3, r3, &rl3) }); perr != nil {
			r.Violate("MilenageGenerate/panic", in.String()+" (in place)", perr.Error(), nil)
		} else {
			cmp("MilenageGenerate/autn-assembled-in-place", a2, refcrypto.AUTN(in.k, wantOpc, in.rand, in.sqn, in.amf))
		}
	}
	l.Case("funcs "+in.String(), true, fmt.Sprintf("%x%x", macA, res))
	// the caller is done with its OPc and clears it (key material): a later derivation for the same K and OP must not be
	// affected by what the caller does to a result it was given
	for i := range opc {
		opc[i] = 0
	}
}

var c15callSeq int

// c15check runs Milenage_check on (possibly corrupted) autn with UE sqn, compares with the reference verdict.
func c15check(r *report.Report, l *report.Local, in c15in, opc []byte, autn []byte, ueSqn []byte, what string) {
	m := refcrypto.Milenage(in.k, opc, in.rand, make([]byte, 6), make([]byte, 2))
	rx := make([]byte, 6)
	for i := range rx {
		rx[i] = autn[i] ^ m.AK[i]
	}
	macOK := bytes.Equal(refcrypto.Milenage(in.k, opc, in.rand, rx, autn[6:8]).MACA, autn[8:16])
	fresh := sqnVal(rx) > sqnVal(ueSqn)
	ik, ck, res, auts := make([]byte, 16), make([]byte, 16), make([]byte, 8), make([]byte, 14)
	rl := uint(0)
	var ret int
	cs := fmt.Sprintf("check %s ueSQN=%x autn=%x (%s)", in.String(), ueSqn, autn, what)
	if perr := recoverErr(func() {
		ret = milenage.Milenage_check(opc, in.k, append([]byte{}, ueSqn...), in.rand, append([]byte{}, autn...), ik, ck, res, &rl, auts)
	}); perr != nil {
		r.Violate("Milenage_check/panic", cs, perr.Error(), nil)
		return
	}
	l.Case(cs, true, fmt.Sprint(ret, macOK, fresh))
	switch {
	case macOK && fresh:
		if ret != 0 {
			r.Violate("Milenage_check/valid-AUTN-rejected/"+c15class(rx, ueSqn), cs, fmt.Sprintf("returned %d", ret), nil)
			return
		}
		if !bytes.Equal(res, m.RES) || !bytes.Equal(ck, m.CK) || !bytes.Equal(ik, m.IK) || rl != 8 {
			r.Violate("Milenage_check/outputs", cs, fmt.Sprintf("res=%x ck=%x ik=%x len=%d", res, ck, ik, rl), nil)
		}
	case !macOK && fresh:
		if ret == 0 {
			r.Violate("Milenage_check/wrong-MAC-accepted/"+c15macclass(refcrypto.Milenage(in.k, opc, in.rand, rx, autn[6:8]).MACA, autn[8:16]), cs, "returned 0", nil)
		} else if ret == -2 {
			r.Violate("Milenage_check/fresh-SQN-resync/"+c15class(rx, ueSqn), cs, "returned -2 (synchronisation failure) although the received SQN is greater", nil)
		}
	case macOK && !fresh:
		if ret != -2 {
			r.Violate("Milenage_check/stale-SQN-not-resync/"+c15class(rx, ueSqn), cs, fmt.Sprintf("returned %d", ret), nil)
			return
		}
		c15auts(r, l, in, opc, auts, ueSqn, cs)
	default:
		if ret == 0 {
			r.Violate("Milenage_check/invalid-accepted", cs, "returned 0", nil)
		}
	}
}

func c15class(rx, ue []byte) string {
	a, b := sqnVal(rx), sqnVal(ue)
	switch {
	case a == b:
		return "sqn-equal"
	case rx[0] != ue[0]:
		return "sqn-differs-in-first-octet"
	default:
		return "sqn-differs-later"
	}
}

func c15macclass(want, got []byte) string {
	n, first := 0, -1
	for i := range want {
		if want[i] != got[i] {
			n++
			if first < 0 {
				first = i
			}
		}
	}
	if n == 1 && first == 0 {
		return "only-first-octet-differs"
	}
	return "other"
}

// c15auts: the AUTS produced must be accepted by Milenage_auts and by the reference, and yield ueSqn.
func c15auts(r *report.Report, l *report.Local, in c15in, opc, auts, ueSqn []byte, cs string) {
	m := refcrypto.Milenage(in.k, opc, in.rand, ueSqn, []byte{0, 0})
	want := make([]byte, 14)
	for i := 0; i < 6; i++ {
		want[i] = ueSqn[i] ^ m.AKStar[i]
	}
	copy(want[6:], m.MACS)
	if !bytes.Equal(auts, want) {
		r.Violate("Milenage_check/auts-value", cs, fmt.Sprintf("got %x want %x", auts, want), nil)
		return
	}
	out := make([]byte, 6)
	var ret int
	if perr := recoverErr(func() { ret = milenage.Milenage_auts(opc, in.k, in.rand, auts, out) }); perr != nil || ret != 0 || !bytes.Equal(out, ueSqn) {
		r.Violate("Milenage_auts/valid-rejected", cs, fmt.Sprintf("ret=%d sqn=%x err=%v", ret, out, perr), nil)
	}
	// the token handed over in a scratch buffer longer than its 14 octets (produced into one by Milenage_check, too)
	for _, n := range []int{15, 16, 32} {
		ik, ck, res, big := make([]byte, 16), make([]byte, 16), make([]byte, 8), bytes.Repeat([]byte{0xa5}, n)
		rl := uint(0)
		autn := refcrypto.AUTN(in.k, opc, in.rand, ueSqn, in.amf) // a network SQN equal to the UE's: stale
		var ret1, ret2 int
		out2 := make([]byte, 6)
		if perr := recoverErr(func() {
			ret1 = milenage.Milenage_check(opc, in.k, append([]byte{}, ueSqn...), in.rand, autn, ik, ck, res, &rl, big)
			ret2 = milenage.Milenage_auts(opc, in.k, in.rand, big, out2)
		}); perr != nil || ret1 != -2 || !bytes.Equal(big[:14], want) || ret2 != 0 || !bytes.Equal(out2, ueSqn) {
			r.Violate("Milenage_auts/token-in-a-longer-buffer", cs+fmt.Sprintf(" AUTS buffer of %d octets", n), fmt.Sprintf("check=%d auts=%x auts-check=%d sqn=%x err=%v", ret1, big, ret2, out2, perr), nil)
		}
	}
}

func c15autsCorrupt(r *report.Report, l *report.Local, in c15in, opc, auts []byte, what string) {
	ak := refcrypto.Milenage(in.k, opc, in.rand, make([]byte, 6), []byte{0, 0}).AKStar
	sq := make([]byte, 6)
	for i := range sq {
		sq[i] = auts[i] ^ ak[i]
	}
	valid := bytes.Equal(refcrypto.Milenage(in.k, opc, in.rand, sq, []byte{0, 0}).MACS, auts[6:14])
	out := make([]byte, 6)
	var ret int
	cs := fmt.Sprintf("auts %s auts=%x (%s)", in.String(), auts, what)
	if perr := recoverErr(func() { ret = milenage.Milenage_auts(opc, in.k, in.rand, append([]byte{}, auts...), out) }); perr != nil {
		r.Violate("Milenage_auts/panic", cs, perr.Error(), nil)
		return
	}
	l.Case(cs, true, fmt.Sprint(ret))
	if valid != (ret == 0) {
		r.Violate("Milenage_auts/verdict", cs, fmt.Sprintf("ret=%d valid=%v", ret, valid), nil)
	}
}

// c15keyTag is appended to the finding keys of c15funcs (set only in the sequential caller-reuses-its-buffers pass).
var c15keyTag string

func runC15(ctx *Ctx) {
	r := ctx.R
	if ctx.Isolate() {
		return
	}
	if err := refcrypto.SelfTest(); err != nil {
		r.HarnessError(err.Error())
		return
	}
	onehot := 16
	if ctx.Thorough {
		onehot = 128
	}
	k0, op0, rand0 := hx("465b5ce8b199b49faa5f0a2ee238a6bc"), hx("cdc202d5123e20f62b6d676ac72cb318"), hx("23553cbe9637a89d218ae64dae47bf35")
	sqn0, amf0 := hx("ff9bb4d0b607"), hx("b9b9")
	r.Rule = fmt.Sprintf("f1..f5*/OPc/AUTN: one-at-a-time sweeps of K, OP, RAND over {35.207 set 1, zero, ones, counting, %d one-hot} with the others at 3 bases, AMF all 65536, SQN alphabet; "+
		"Milenage_check: full product of 8x8 (network SQN, UE SQN) x 3 (K,OP,RAND) triples x AMF{0000,8000,b9b9,ffff}; for every valid AUTN every single-bit (128) and single-octet (16x255) corruption and every pair of octets changed by the same difference (120x255); same for AUTS (112 bits, 14x255, 91x255), the token also in buffers of 15, 16 and 32 octets; AUTN generation also with SQN and AMF handed over inside the output buffer; "+
		"every f1..f5* case also in one sequential history in which the caller overwrites one buffer per argument in place, and consecutive calls with related inputs (same K under two OPs with RAND2 = RAND1 xor OPc1 xor OPc2, i.e. equal first-pass blocks; same OPc and RAND under two keys); oracle: refcrypto verdict (accept iff MAC-A right and SQN greater; stale SQN -> AUTS that verifies and yields the UE SQN); non-trivial = all (distinct case strings hashed)", onehot)
	r.Assume("refcrypto Milenage anchored on all eight values of TS 35.207 test set 1", "128-bit values outside the structured alphabet are not enumerated")
	ks, ops, rands := vec128(k0, onehot), vec128(op0, onehot), vec128(rand0, onehot)
	var ins []c15in
	bases := [][3][]byte{{k0, op0, rand0}, {ks[1], ops[1], rands[1]}, {ks[2], ops[2], rands[2]}}
	for _, b := range bases {
		for _, k := range ks {
			ins = append(ins, c15in{k, b[1], b[2], sqn0, amf0})
		}
		for _, o := range ops {
			ins = append(ins, c15in{b[0], o, b[2], sqn0, amf0})
		}
		for _, x := range rands {
			ins = append(ins, c15in{b[0], b[1], x, sqn0, amf0})
		}
	}
	for a := 0; a < 65536; a++ {
		ins = append(ins, c15in{k0, op0, rand0, sqn0, []byte{byte(a >> 8), byte(a)}})
	}
	sqns := []uint64{0, 1, 2, 0x00ffffffffff, 0x010000000000, 0xff0000000000, 1<<48 - 2, 1<<48 - 1}
	for _, s := range sqns {
		ins = append(ins, c15in{k0, op0, rand0, sqn6(s), amf0}, c15in{ks[2], ops[1], rand0, sqn6(s), []byte{0x80, 0}})
	}
	for b := 0; b < 48; b++ {
		ins = append(ins, c15in{k0, op0, rand0, sqn6(1 << uint(b)), amf0})
	}
	{
		h := fnv.New64a()
		for _, in := range ins {
			h.Write([]byte(in.String()))
		}
		r.Consistent("input list", fmt.Sprintf("%d inputs, hash %x", len(ins), h.Sum64()))
	}
	ParallelFor(r, len(ins), func(l *report.Local, i int) { c15funcs(r, l, ins[i]) })
	r.Sample("funcs " + ins[0].String())
	if ctx.Lead() {
		// the same inputs again, one after the other, with the caller keeping ONE buffer per argument and overwriting it in
		// place for every call (hex.Decode into a reused slice, InsertData): results must not depend on the identity of the
		// argument slices or on what they held during earlier calls
		bk, bop, brand, bsqn, bamf := make([]byte, 16), make([]byte, 16), make([]byte, 16), make([]byte, 6), make([]byte, 2)
		lr := r.Local()
		c15keyTag = "/caller-reuses-buffers"
		for i, in := range ins {
			if i%7 != 0 && i > 1200 { // every sweep entry, and every 7th of the long AMF run
				continue
			}
			copy(bk, in.k)
			copy(bop, in.op)
			copy(brand, in.rand)
			copy(bsqn, in.sqn)
			copy(bamf, in.amf)
			c15funcs(r, lr, c15in{bk, bop, brand, bsqn, bamf})
		}
		c15keyTag = "/related-consecutive-inputs"
		// consecutive calls whose intermediate blocks coincide although the inputs differ: the same K under two OPs with
		// RAND2 = RAND1 xor OPc1 xor OPc2 (equal input to the first AES pass), the same OPc and RAND under two keys,
		// the same K and RAND under two OPs; each pair in both orders and repeated
		xor16 := func(a, b, c []byte) []byte {
			o := make([]byte, 16)
			for i := range o {
				o[i] = a[i] ^ b[i] ^ c[i]
			}
			return o
		}
		nrel := 0
		for bi, b := range bases {
			for oi := 0; oi < 6; oi++ {
				op2 := ops[(bi+oi+1)%len(ops)]
				if bytes.Equal(op2, b[1]) {
					continue
				}
				r2 := xor16(b[2], refcrypto.OPc(b[0], b[1]), refcrypto.OPc(b[0], op2))
				a1, a2 := c15in{b[0], b[1], b[2], sqn0, amf0}, c15in{b[0], op2, r2, sqn0, amf0}
				k2 := ks[(bi+oi+2)%len(ks)]
				a3, a4 := c15in{k2, b[1], b[2], sqn0, amf0}, c15in{b[0], op2, b[2], sqn0, amf0}
				for _, in := range []c15in{a1, a2, a1, a2, a2, a1, a3, a1, a4, a1, a2, a4, a2} {
					c15funcs(r, lr, in)
					nrel++
				}
			}
		}
		r.Set("related_consecutive_inputs", nrel)
		c15keyTag = ""
		lr.Merge()
		r.Sample("reused buffers: funcs(K1,..) then the same K slice overwritten with K2, funcs(K2,..) ...")
	}

	// Milenage_check over SQN pairs and corruptions
	type job struct {
		in      c15in
		ue      []byte
		corrupt bool
	}
	var jobs []job
	for bi, b := range bases {
		for _, amf := range [][]byte{{0x80, 0}, {0, 0}, {0xb9, 0xb9}, {0xff, 0xff}} {
			for _, sn := range sqns {
				for _, su := range sqns {
					// corruptions for one base/amf and the pairs where the AUTN is valid
					jobs = append(jobs, job{c15in{b[0], b[1], b[2], sqn6(sn), amf}, sqn6(su), sn > su && (ctx.Thorough || (bi == 0 && amf[0] == 0x80))})
				}
			}
		}
	}
	ParallelFor(r, len(jobs), func(l *report.Local, i int) {
		j := jobs[i]
		opc := refcrypto.OPc(j.in.k, j.in.op)
		autn := refcrypto.AUTN(j.in.k, opc, j.in.rand, j.in.sqn, j.in.amf)
		c15check(r, l, j.in, opc, autn, j.ue, "intact")
		if j.corrupt {
			for bit := 0; bit < 128; bit++ {
				a := append([]byte{}, autn...)
				a[bit/8] ^= 0x80 >> uint(bit%8)
				c15check(r, l, j.in, opc, a, j.ue, fmt.Sprintf("bit %d flipped", bit))
			}
			for pos := 0; pos < 16; pos++ {
				for d := 1; d < 256; d++ {
					a := append([]byte{}, autn...)
					a[pos] ^= byte(d)
					c15check(r, l, j.in, opc, a, j.ue, fmt.Sprintf("octet %d xor %#x", pos, d))
				}
			}
			// two octets changed by the same difference (differences that cancel in a folded comparison), every pair of positions
			for p1 := 0; p1 < 16; p1++ {
				for p2 := p1 + 1; p2 < 16; p2++ {
					for d := 1; d < 256; d++ {
						a := append([]byte{}, autn...)
						a[p1] ^= byte(d)
						a[p2] ^= byte(d)
						c15check(r, l, j.in, opc, a, j.ue, fmt.Sprintf("octets %d and %d xor %#x", p1, p2, d))
					}
				}
			}
		}
		if sqnVal(j.in.sqn) <= sqnVal(j.ue) && (ctx.Thorough || i%8 == 0) {
			// AUTS corruptions
			m := refcrypto.Milenage(j.in.k, opc, j.in.rand, j.ue, []byte{0, 0})
			auts := make([]byte, 14)
			for x := 0; x < 6; x++ {
				auts[x] = j.ue[x] ^ m.AKStar[x]
			}
			copy(auts[6:], m.MACS)
			c15autsCorrupt(r, l, j.in, opc, auts, "intact")
			for bit := 0; bit < 112; bit++ {
				a := append([]byte{}, auts...)
				a[bit/8] ^= 0x80 >> uint(bit%8)
				c15autsCorrupt(r, l, j.in, opc, a, fmt.Sprintf("bit %d flipped", bit))
			}
			for pos := 0; pos < 14; pos++ {
				for d := 1; d < 256; d++ {
					a := append([]byte{}, auts...)
					a[pos] ^= byte(d)
					c15autsCorrupt(r, l, j.in, opc, a, fmt.Sprintf("octet %d xor %#x", pos, d))
				}
			}
			for p1 := 0; p1 < 14; p1++ {
				for p2 := p1 + 1; p2 < 14; p2++ {
					for d := 1; d < 256; d++ {
						a := append([]byte{}, auts...)
						a[p1] ^= byte(d)
						a[p2] ^= byte(d)
						c15autsCorrupt(r, l, j.in, opc, a, fmt.Sprintf("octets %d and %d xor %#x", p1, p2, d))
					}
				}
			}
		}
	})
	r.Sample(fmt.Sprintf("check %s ueSQN=%x (intact, then 128 bit flips and 16x255 octet substitutions of the AUTN)", jobs[1].in.String(), jobs[1].ue))
	r.Set("sqn_pairs", len(sqns)*len(sqns))
	r.Set("check_jobs", len(jobs))
}
