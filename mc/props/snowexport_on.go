//go:build snowexport

package props

import "free5gclib/nas/security/snow3g"

var snowTables = &struct {
	SR, SQ   func(byte) byte
	Mul, Div func(byte) uint32
}{snow3g.VerifSR, snow3g.VerifSQ, snow3g.VerifMulAlpha, snow3g.VerifDivAlpha}
