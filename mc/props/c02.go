package props

import (
	"bytes"
	"fmt"
	"net"
	"strings"
	"syscall"
	"time"

	"mc/explore"
	"mc/n2"
	"mc/refamf"
	"mc/report"
	"stgutg"

	"github.com/ishidawataru/sctp"
)

func init() { register("C02", "model_checking", runC02) }

func minInt(a, b int) int {
	if a < b {
		return a
	}
	return b
}

// c02expected: the state the reference AMF must end in for UE i under count vector v (reg,pdu,svc,rel,dereg).
func c02expected(v [5]int, i int) string {
	pduN := minInt(v[0], v[1])
	relN := minInt(pduN, v[3])
	deregN := minInt(v[0], v[4])
	st, se := "REGISTERED", "S_NONE"
	if i < deregN {
		st = "DEREGISTERED"
	}
	if i < pduN && i >= relN {
		se = "S_ACTIVE"
	}
	// the configured number of service requests, clamped like the others: the first min(reg, pdu, svc) UEs make one each
	svc := 0
	if i < minInt(pduN, v[2]) {
		svc = 1
	}
	return fmt.Sprintf("%s/%s/service-requests=%d", st, se, svc)
}

var c02ips = [][]byte{{10, 45, 0, 2}, {0, 0, 0, 0}, {255, 255, 255, 255}, {10, 0, 41, 0x29}, {0x59, 0x7b, 0x22, 0x25}}
var c02teids = [][]byte{{0, 0, 0, 1}, {0, 0, 0, 0}, {255, 255, 255, 255}, {0, 0, 0, 0x29}, {0, 0x8b, 0, 0x0a}}

func runC02(ctx *Ctx) {
	r := ctx.R
	codec := getCodec(r)
	if codec == nil {
		return
	}
	if ctx.IsChild() {
		c02inProcess(ctx)
		return
	}
	maxc := 2
	budget := 10 * time.Minute // (seconds on an idle machine; a busy one must not shrink the quick tier)
	if ctx.Thorough {
		maxc = 4
		budget = 14 * time.Minute
	}
	deadline := time.Now().Add(budget)
	st := newN2stats()
	// Part 1: the full product of count vectors
	n := maxc + 1
	total := n * n * n * n * n
	var vectors [][5]int
	for x := 0; x < total; x++ {
		v := [5]int{x % n, (x / n) % n, (x / n / n) % n, (x / n / n / n) % n, (x / n / n / n / n) % n}
		vectors = append(vectors, v)
	}
	vectors = append(vectors, [5]int{16, 16, 2, 16, 16}, [5]int{20, 20, 0, 20, 20}, [5]int{5, 9, 9, 9, 9}, [5]int{4, 2, 7, 1, 3})
	// populations beyond 255/256 UEs (every 8-bit counter, identifier octet or sequence that is per run rather than per UE wraps)
	vectors = append(vectors, [5]int{260, 260, 1, 260, 260})
	if ctx.Thorough {
		vectors = append(vectors, [5]int{520, 520, 0, 0, 0}, [5]int{300, 300, 300, 300, 300})
	}
	cut := false
	runVec := func(l *report.Local, v [5]int, emu n2.EmuConfig, ch refamf.Choices, acfg refamf.Config, cs string, nontrivial bool, picks []int) {
		emu.Reg, emu.Pdu, emu.Svc, emu.Rel, emu.Dereg = v[0], v[1], v[2], v[3], v[4]
		horizon := 60 * time.Second
		if v[0] > acfg.MaxUE {
			acfg.MaxUE = v[0] // provision as many subscribers as the run registers
			horizon = 300 * time.Second
		}
		a := refamf.New(acfg, ch, codec)
		res := n2.Run(n2.Opts{YAML: emu.YAML(), AMF: a, Horizon: horizon})
		out := n2judge(r, cs, res, a, func(u *refamf.UE) string { return c02expected(v, u.Index) }, v[0], picks)
		// the number of each procedure the AMF saw must be the configured (clamped) one
		st.add(a)
		l.Case(cs, nontrivial, out)
	}
	ParallelFor(r, len(vectors), func(l *report.Local, i int) {
		if time.Now().After(deadline) {
			cut = true
			return
		}
		emu := n2.DefaultEmuConfig()
		_, acfg := n2config(explore.Replay(nil))
		runVec(l, vectors[i], emu, refamf.DefaultChoices(), acfg, fmt.Sprintf("counts(reg,pdu,svc,rel,dereg)=%v", vectors[i]), vectors[i] != [5]int{}, nil)
	})
	if cut {
		r.NotExhaustive("budget ended during the product of count vectors")
	}
	r.Set("count_vectors", len(vectors))
	// Part 2: network-assigned values, deviation-bounded, on top of (2,2,2,2,2)
	locals := make([]*report.Local, Workers())
	for i := range locals {
		locals[i] = r.Local()
	}
	bound := 2
	body := func(c *explore.Chooser, w int) {
		emu := n2.DefaultEmuConfig()
		_, acfg := n2config(explore.Replay(nil))
		ch := refamf.DefaultChoices()
		ip0, ip1 := c.Pick("UE0-IP", len(c02ips)), c.Pick("UE1-IP", len(c02ips))
		t0, t1 := c.Pick("UE0-TEID", len(c02teids)), c.Pick("UE1-TEID", len(c02teids))
		u0, u1 := c.Pick("UE0-UPF", len(c02ips)), c.Pick("UE1-UPF", len(c02ips))
		ch.UEIP = [][]byte{c02ips[ip0], c02ips[(ip1+1)%len(c02ips)]}
		ch.TEID = [][]byte{c02teids[t0], c02teids[(t1+1)%len(c02teids)]}
		ch.UPFIP = [][]byte{c02ips[u0], c02ips[(u1+2)%len(c02ips)]}
		ch.AmfUeIDBase = []int64{1, 0, 255, 65535, 1<<32 - 1, 1 << 32, 1<<40 - 3}[c.Pick("AMF-UE-NGAP-ID-base", 7)]
		ch.AmfUeIDStep = []int64{1, 2, 256}[c.Pick("AMF-UE-NGAP-ID-step", 3)]
		ch.QosRulesLen = []int{9, 0, 255, 256, 1000}[c.Pick("QoS-rules-length", 5)]
		ch.AmbrDL = []int64{1000000000, 0, 139, 4000000000000}[c.Pick("AMBR-DL", 4)]
		ch.NgKSI = byte(c.Pick("ngKSI", 7))
		ch.AcceptOpt = uint(c.Pick("accept-shape(5GSM cause | later-release IEs | SSC mode 3)", 8))
		ch.RejectSession = c.Pick("SMF-rejects-the-session-of-UE", 3) // 0: none; 1, 2: the first / second UE
		// Session-AMBR of the accept in other units than 1 Mbps (TS 24.501 9.11.4.14: Kbps ... Pbps, DL and UL apart)
		ch.SessAmbr = [][]byte{nil, {0x0b, 0x00, 0x02, 0x0b, 0x00, 0x02}, {0x01, 0xff, 0xff, 0x06, 0x00, 0x01}, {0x10, 0x00, 0x01, 0x03, 0x00, 0x64}, {0x19, 0x00, 0x01, 0x19, 0x00, 0x01}}[c.Pick("session-AMBR-units", 5)]
		pi := n2imsis[c.Pick("imsi/plmn", len(n2imsis))]
		emu.IMSI, emu.MCC, emu.MNC = pi.imsi, pi.mcc, pi.mnc
		acfg.IMSI, acfg.MCC, acfg.MNC = pi.imsi, pi.mcc, pi.mnc
		runVec(locals[w], [5]int{2, 2, 2, 2, 2}, emu, ch, acfg, "assigned values on counts (2,2,2,2,2): "+c.Describe(), c.Deviations() > 0, c.Picks)
	}
	stx := explore.Explore(explore.Config{Bound: bound, Workers: Workers(), Deadline: deadline}, body)
	for _, l := range locals {
		l.Merge()
	}
	if !stx.Complete {
		r.NotExhaustive(fmt.Sprintf("budget ended in deviation level %d of the assigned-value sweep", stx.BoundCompleted+1))
	}
	r.Set("assigned_value_bound_completed", stx.BoundCompleted)
	// Part 3: values returned by EstablishPDU (in-process, in shard processes because the procedures os.Exit on errors)
	ctx.Fork(4)
	r.Set("states", len(st.states))
	r.Set("transitions", len(st.transitions))
	r.Set("traces_validated_against_impl", st.runs)
	r.Sample("counts(reg,pdu,svc,rel,dereg)=[2 1 2 0 2]: UE0 registers, establishes, requests service, deregisters; UE1 registers, deregisters")
	r.Sample("assigned values on counts (2,2,2,2,2): UE0-IP=3 (10.0.41.41), AMF-UE-NGAP-ID-base=6 (2^40-3)")
	r.Rule = fmt.Sprintf("real emulator process x reference AMF/SMF model: (1) the full product of the five repetition counts in {0..%d}^5 (%d vectors, so every clamp and 'count larger than the registered UEs' case) plus vectors with 16, 20 UEs and unequal counts; (2) every vector with <=2 deviations over network-assigned values (UE IPv4, TEID, UPF IPv4 per UE incl. octets equal to IEIs, AMF-UE-NGAP-ID base up to 2^40-3 and step, QoS-rules length, AMBR, Session-AMBR units and values of the accept, ngKSI, IMSI/PLMN shape) on counts (2,2,2,2,2); (3) in-process NGSetup+Register+EstablishPDU for the product of address/TEID alphabets: returned (UE IP, TEID, UPF IP) == assigned; "+
		"oracle = the model accepts every message in its state (prerequisites, ids, PSI equal in 5GSM header / UL NAS TRANSPORT / NGAP response and within 1..15, distinct SUPIs, COUNT never reused and +1, MACs), final state of every UE as the count vector dictates, exit 0 with the banner", maxc, total)
	r.Assume("the reference AMF identifies the UE of a Service Request by RAN-UE-NGAP-ID and MAC, keeps the AMF-UE-NGAP-ID across it and does not check the hard-coded 5G-S-TMSI / ngKSI (not among the values the property enumerates)",
		"the AMF includes the UE's active PDU session in the InitialContextSetupRequest that answers a Service Request", "time shim as C01")
}

// c02inProcess: NG Setup, registration and session establishment through the real procedures inside this process,
// against the reference AMF on the other end of a socketpair; checks what EstablishPDU returns.
func c02inProcess(ctx *Ctx) {
	r := ctx.R
	codec := getCodec(r)
	l := r.Local()
	item := 0
	// QoS-rules lengths for which the setup request is exactly 2046, 2047 and 2048 octets long
	var c02sizeTargets []int
	{
		_, acfg := n2config(explore.Replay(nil))
		ch := refamf.DefaultChoices()
		ch.UEIP, ch.TEID, ch.UPFIP, ch.QosRulesLen = [][]byte{c02ips[0]}, [][]byte{c02teids[0]}, [][]byte{c02ips[0]}, 1500
		probe := refamf.New(acfg, ch, codec).SetupRequestSize(ch.AmfUeIDBase, 1)
		for _, target := range []int{2046, 2047, 2048} {
			c02sizeTargets = append(c02sizeTargets, 1500+target-probe)
		}
		r.Set("setup_request_sizes_aimed_at", []int{2046, 2047, 2048})
	}
	// a procedure that never returns (it waits for octets that will not come) is a violation, not a reason for the check to wait
	wd := startWatchdog(r, 5*time.Second, "establish/does-not-return")
	for ipIdx, ip := range c02ips {
		for teidIdx, teid := range c02teids {
			for upfIdx, upf := range c02ips {
				qs := []int{9, 300, -9}
				if ipIdx == 0 && teidIdx == 0 && upfIdx == 0 {
					// QoS-rules lengths that make the whole PDU SESSION RESOURCE SETUP REQUEST 2046, 2047 and 2048 octets
					// long (the emulator reads into a 2048-octet buffer): found from the size at a probe length
					qs = append(qs, c02sizeTargets...)
				}
				for _, q := range qs {
					item++
					if !ctx.Mine(item) {
						continue
					}
					cs := fmt.Sprintf("EstablishPDU assigned ip=%v teid=%x upf=%v qosRules=%d", ip, teid, upf, q)
					ctx.MarkCase(cs)
					emu := n2.DefaultEmuConfig()
					_, acfg := n2config(explore.Replay(nil))
					ch := refamf.DefaultChoices()
					if q < 0 { // the accept carries the 5GSM cause IE in front of the PDU address
						ch.AcceptOpt, q = 1, -q
					}
					// a second UE follows on the same association with other assigned values: what was reported for the first
					// session must still be that after the later procedures (a result that aliases a shared receive buffer
					// changes only then)
					ip2, teid2, upf2 := []byte{10, 60, 0, 77}, []byte{0x0a, 0x0b, 0x0c, 0x0d}, []byte{10, 200, 200, 177}
					ch.UEIP, ch.TEID, ch.UPFIP, ch.QosRulesLen = [][]byte{ip, ip2}, [][]byte{teid, teid2}, [][]byte{upf, upf2}, q
					ch.SessAmbr = [][]byte{nil, {0x0b, 0x00, 0x02, 0x0b, 0x00, 0x02}, {0x01, 0xff, 0xff, 0x06, 0x00, 0x01}, {0x29, 0x00, 0x01, 0x03, 0x00, 0x64}}[item%4]
					a := refamf.New(acfg, ch, codec)
					fds, err := syscall.Socketpair(syscall.AF_UNIX, syscall.SOCK_SEQPACKET, 0)
					if err != nil {
						r.HarnessError(err.Error())
						return
					}
					amfDone := make(chan struct{})
					maxDown := 0
					go func() {
						defer close(amfDone)
						buf := make([]byte, 65536)
						for {
							n, _, _, _, err := syscall.Recvmsg(fds[0], buf, nil, 0)
							if err != nil || n == 0 {
								return
							}
							for _, rep := range a.HandleUplink(append([]byte{}, buf[:n]...)) {
								if len(rep) > maxDown {
									maxDown = len(rep)
								}
								syscall.Sendmsg(fds[0], rep, nil, nil, 0)
							}
							if len(a.Viol) > 0 {
								// make the model's verdict visible even if the procedure under test now ends the process
								ctx.MarkCase(cs + " -- reference AMF rejected: " + a.Viol[0].Key + ": " + a.Viol[0].Detail)
								syscall.Shutdown(fds[0], syscall.SHUT_RDWR)
								return
							}
						}
					}()
					conn := sctp.NewSCTPConn(fds[1], nil)
					var gotIP, gotUPF, snapIP, snapUPF, gotIP2, gotUPF2 net.IP
					var gotTEID, gotTEID2 uint32
					wd.enter(cs)
					perr := recoverErr(func() {
						stgutg.ManageNGSetup(conn, emu.GnbID, emu.IMSI, emu.MNC, uint64(emu.GnbBits), emu.GnbName)
						ue := stgutg.CreateUE(emu.IMSI, 0, emu.K, emu.OPc, emu.OP)
						ue, _, _ = stgutg.RegisterUE(ue, emu.MNC, emu.MCC, conn)
						gotIP, gotTEID, gotUPF = stgutg.EstablishPDU(int32(emu.SST), emu.SD, ue, conn, emu.GnbGtpIP)
						snapIP, snapUPF = append(net.IP{}, gotIP...), append(net.IP{}, gotUPF...)
						if item%3 == 0 { // every third case: a second UE on the same association
							ueB := stgutg.CreateUE(emu.IMSI, 1, emu.K, emu.OPc, emu.OP)
							ueB, _, _ = stgutg.RegisterUE(ueB, emu.MNC, emu.MCC, conn)
							gotIP2, gotTEID2, gotUPF2 = stgutg.EstablishPDU(int32(emu.SST), emu.SD, ueB, conn, emu.GnbGtpIP)
						}
					})
					wd.leave()
					syscall.Shutdown(fds[0], syscall.SHUT_RDWR) // wakes the AMF goroutine; wait for it before the descriptor number can be reused
					<-amfDone
					syscall.Close(fds[0])
					conn.Close()
					ctx.ClearCase()
					l.Case(cs, true, fmt.Sprint(gotIP, gotTEID, gotUPF))
					if q > 1000 {
						r.Set(fmt.Sprintf("largest_downlink_message_with_qosRules_%d", q), maxDown)
					}
					for _, v := range a.Viol {
						r.Violate("amf/"+v.Key, cs, v.Detail, nil)
					}
					if perr != nil {
						r.Violate("establish/panic", cs, perr.Error(), nil)
						continue
					}
					want := uint32(teid[0])<<24 | uint32(teid[1])<<16 | uint32(teid[2])<<8 | uint32(teid[3])
					if !bytes.Equal(snapIP, ip) || gotTEID != want || !bytes.Equal(snapUPF, upf) {
						r.Violate("establish/returned-values", cs, fmt.Sprintf("returned ip=%v teid=%#x upf=%v", snapIP, gotTEID, snapUPF), nil)
					} else if !bytes.Equal(gotIP, snapIP) || !bytes.Equal(gotUPF, snapUPF) {
						r.Violate("establish/returned-values-changed-by-later-procedures", cs, fmt.Sprintf("after the next UE's procedures the first session's values read ip=%v upf=%v (were %v %v)", gotIP, gotUPF, snapIP, snapUPF), nil)
					}
					if item%3 == 0 {
						want2 := uint32(teid2[0])<<24 | uint32(teid2[1])<<16 | uint32(teid2[2])<<8 | uint32(teid2[3])
						if !bytes.Equal(gotIP2, ip2) || gotTEID2 != want2 || !bytes.Equal(gotUPF2, upf2) {
							r.Violate("establish/returned-values/second-UE", cs, fmt.Sprintf("returned ip=%v teid=%#x upf=%v, assigned %v %x %v", gotIP2, gotTEID2, gotUPF2, net.IP(ip2), teid2, net.IP(upf2)), nil)
						}
					}
				}
			}
		}
	}
	l.Merge()
	_ = strings.TrimSpace
}
