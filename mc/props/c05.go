package props

import (
	"bytes"
	"encoding/hex"
	"fmt"
	"free5gclib/UeauCommon"
	"strings"
	"sync"
	"time"

	"mc/explore"
	"mc/refcrypto"
	"mc/report"
	"tglib"
)

func init() { register("C05", "exploration", runC05) }

func runC05(ctx *Ctx) {
	r := ctx.R
	if ctx.Isolate() {
		return
	}
	if err := refcrypto.SelfTest(); err != nil {
		r.HarnessError(err.Error())
		return
	}
	onehot := 32
	bound := 2
	if ctx.Thorough {
		onehot = 128
	}
	k0, op0, rand0 := hx("465b5ce8b199b49faa5f0a2ee238a6bc"), hx("cdc202d5123e20f62b6d676ac72cb318"), hx("23553cbe9637a89d218ae64dae47bf35")
	ks, ops, rands := vec128(k0, onehot), vec128(op0, onehot), vec128(rand0, onehot)
	ks = append(ks, hx("5122250214c33e723a5dd523fc145fc0")) // TS 35.208 set 19 K as shipped in CommonConsumerTestData
	sqnaks := [][]byte{hx("000000000000"), hx("000000000001"), hx("800000000000"), hx("ffffffffffff"), hx("aa689c648370"), hx("000000010000")}
	amfs := []string{"8000", "0000", "ffff", "b9b9"}
	plmns := [][2]string{{"001", "01"}, {"999", "99"}, {"208", "93"}, {"310", "410"}, {"001", "001"}, {"999", "999"}}
	supiDigits := "001010123456789"
	r.Rule = fmt.Sprintf("deviation-bounded enumeration (all vectors with <=%d non-default choices; small dimensions additionally as a full product) over K(%d) x OP/OPc(%d) x RAND(%d) x SQN^AK(%d) x AMF(%d) x MCC/MNC(%d, 2- and 3-digit MNC) x SUPI length 5..15 x SUPI prefix{imsi-,supi-} x ciphering alg 0..3 x integrity alg 0..3 x {OPc given, OP only, OPc upper-case hex}; "+
		"plus every history of <=3 derivations on one UE context over 9 vectors differing in one dimension; oracle: RES*, K_AMF, K_NASenc, K_NASint == refcrypto (TS 35.206 + TS 33.501 A.2/A.4/A.6/A.7/A.8), OP-only == OPc run; non-trivial = at least one non-default choice; distinct = distinct choice vectors",
		bound, len(ks), len(ops), len(rands), len(sqnaks), len(amfs), len(plmns))
	r.Assume("refcrypto anchored on TS 35.207 set 1 and RFC 4231-style HMAC from the Go standard library (crypto/hmac, crypto/sha256 are trusted)",
		"128-bit values outside the structured alphabet are not enumerated (no branch of the derivation depends on key bits)")
	locals := make([]*report.Local, Workers())
	for i := range locals {
		locals[i] = r.Local()
	}
	var sampleOnce sync.Once
	fixBig := false
	body := func(c *explore.Chooser, w int) {
		l := locals[w]
		k, op, rand := ks[0], ops[0], rands[0]
		if !fixBig {
			k = ks[c.Pick("K", len(ks))]
			op = ops[c.Pick("OP", len(ops))]
			rand = rands[c.Pick("RAND", len(rands))]
		}
		sqnak := sqnaks[c.Pick("SQNxorAK", len(sqnaks))]
		amf := amfs[c.Pick("AMF", len(amfs))]
		plmn := plmns[c.Pick("PLMN", len(plmns))]
		slen := 15 - c.Pick("supiLen", 11)
		prefix := []string{"imsi-", "supi-"}[c.Pick("supiPrefix", 2)]
		enc := byte(c.Pick("encAlg", 4))
		integ := byte(c.Pick("intAlg", 4))
		mode := c.Pick("opMode", 3)
		digits := supiDigits[:slen]
		opc := refcrypto.OPc(k, op)
		want := refcrypto.Derive5G(k, opc, rand, sqnak, plmn[0], plmn[1], digits, enc, integ)
		cs := fmt.Sprintf("K=%x OP=%x RAND=%x SQNxorAK=%x AMF=%s PLMN=%s/%s SUPI=%s%s enc=%d int=%d mode=%d", k, op, rand, sqnak, amf, plmn[0], plmn[1], prefix, digits, enc, integ, mode)
		sampleOnce.Do(func() { r.Sample(cs) })
		ue := tglib.NewRanUeContext(prefix+digits, 1, enc, integ)
		var subs = tglib.GetAuthSubscription(hex.EncodeToString(k), hex.EncodeToString(opc), hex.EncodeToString(op))
		switch mode {
		case 1:
			subs = tglib.GetAuthSubscription(hex.EncodeToString(k), "", hex.EncodeToString(op))
		case 2:
			subs = tglib.GetAuthSubscription(strings.ToUpper(hex.EncodeToString(k)), strings.ToUpper(hex.EncodeToString(opc)), "")
		}
		subs.AuthenticationManagementField = amf
		var autn [16]byte
		copy(autn[0:6], sqnak)
		ab, _ := hex.DecodeString(amf)
		copy(autn[6:8], ab)
		copy(autn[8:], refcrypto.Milenage(k, opc, rand, make([]byte, 6), ab).MACA) // MAC value is irrelevant to the derivation
		snName := refcrypto.SNName(plmn[0], plmn[1])
		var res []byte
		if perr := recoverErr(func() {
			res = ue.DeriveRESstarAndSetKey(subs, autn, append([]byte{}, rand...), snName, plmn[1], plmn[0])
		}); perr != nil {
			r.Violate("derive/panic", cs, perr.Error(), c.Picks)
			l.Case(cs, c.Deviations() > 0, "panic")
			return
		}
		l.Case(cs, c.Deviations() > 0, fmt.Sprintf("%x", res))
		if !bytes.Equal(res, want.ResStar) {
			key := "RESstar/value"
			if mode == 1 {
				key = "RESstar/value/op-only"
			}
			r.Violate(key, cs, fmt.Sprintf("got %x want %x", res, want.ResStar), c.Picks)
		}
		if !bytes.Equal(ue.Kamf, want.Kamf) {
			r.Violate(fmt.Sprintf("Kamf/value/supiLen=%d", slen), cs, fmt.Sprintf("got %x want %x", ue.Kamf, want.Kamf), c.Picks)
		}
		if ue.KnasEnc != want.KnasEnc {
			r.Violate("KnasEnc/value", cs, fmt.Sprintf("got %x want %x", ue.KnasEnc, want.KnasEnc), c.Picks)
		}
		if ue.KnasInt != want.KnasInt {
			r.Violate("KnasInt/value", cs, fmt.Sprintf("got %x want %x", ue.KnasInt, want.KnasInt), c.Picks)
		}
	}
	var deadline time.Time
	if !ctx.Thorough {
		deadline = time.Now().Add(10 * time.Minute)
	} else {
		deadline = time.Now().Add(12 * time.Minute)
	}
	st := explore.Explore(explore.Config{Bound: bound, Workers: Workers(), Deadline: deadline}, body)
	r.Set("bound_completed", st.BoundCompleted)
	if st.Level1 != "" {
		r.Consistent("level-1 vectors", st.Level1)
	}
	for d, n := range st.PerLevel {
		r.Add(fmt.Sprintf("executions_with_%d_deviations", d), n)
	}
	if !st.Complete {
		r.NotExhaustive(fmt.Sprintf("budget ended during deviation level %d after %d executions of it", st.BoundCompleted+1, st.BeyondBound))
	}
	// full product of the small dimensions with the 128-bit inputs at the default
	fixBig = true
	st2 := explore.Explore(explore.Config{Bound: -1, Workers: Workers(), Deadline: deadline}, body)
	r.Add("small_dimension_product_executions", st2.Executions)
	if !st2.Complete {
		r.NotExhaustive("budget ended during the full product of the small dimensions")
	}
	for _, l := range locals {
		l.Merge()
	}
	// Histories on ONE UE context: every sequence of <=3 derivations over 9 input vectors that differ from each
	// other in a single dimension (same RAND with another SQN^AK / PLMN / K / OPc; another RAND; OP-only).
	// Each call must give the reference values whatever was derived before on the same context.
	type vec struct {
		k, op, rand, sqnak []byte
		plmn               [2]string
		opOnly             bool
	}
	base := vec{ks[0], ops[0], rands[0], sqnaks[0], plmns[0], false}
	vs := []vec{base}
	v := base
	v.sqnak = sqnaks[4]
	vs = append(vs, v)
	v = base
	v.plmn = plmns[3]
	vs = append(vs, v)
	v = base
	v.k = ks[2]
	vs = append(vs, v)
	v = base
	v.op = ops[2]
	vs = append(vs, v)
	v = base
	v.rand = rands[2]
	vs = append(vs, v)
	v = base
	v.opOnly = true
	vs = append(vs, v)
	v = base
	v.opOnly, v.k = true, ks[2]
	vs = append(vs, v)
	v = base
	v.opOnly, v.op = true, ops[2]
	vs = append(vs, v)
	if !ctx.Lead() {
		return
	}
	// The generic KDF itself (TS 33.220 B.2), as one sequential history in which the caller keeps ONE key buffer and ONE
	// buffer per parameter and overwrites them in place between calls; every earlier result is looked at again after
	// the next call. Results must depend on the argument values only.
	{
		lk := r.Local()
		var kdfHeld held
		keyBuf, p0Buf, p1Buf := make([]byte, 32), make([]byte, 40), make([]byte, 8)
		kdfKeys := [][]byte{pattern(1, 32), pattern(2, 32), make([]byte, 32), pattern(1, 32), bytes.Repeat([]byte{0xff}, 32), pattern(3, 16)}
		p0s := [][]byte{[]byte("5G:mnc001.mcc001.3gppnetwork.org"), []byte("001010000000001"), {0x01}, {}}
		p1s := [][]byte{{0x00, 0x00}, hx("ff9bb4d0b607"), {0x02}}
		n := 0
		for round := 0; round < 2; round++ {
			for _, fc := range []string{"69", "6A", "6B", "6C", "6D"} {
				for _, key := range kdfKeys {
					for pi, p0 := range p0s {
						p1 := p1s[(pi+n)%len(p1s)]
						n++
						kb, a, b := keyBuf[:len(key)], p0Buf[:len(p0)], p1Buf[:len(p1)]
						copy(kb, key)
						copy(a, p0)
						copy(b, p1)
						cs := fmt.Sprintf("GetKDFValue(key=%x.., FC=%s, P0=%x, P1=%x) with the caller's buffers reused", key[:4], fc, p0, p1)
						var got []byte
						if perr := recoverErr(func() {
							got = UeauCommon.GetKDFValue(kb, fc, a, UeauCommon.KDFLen(a), b, UeauCommon.KDFLen(b))
						}); perr != nil {
							r.Violate("KDF/panic", cs, perr.Error(), nil)
							continue
						}
						fcb, _ := hex.DecodeString(fc)
						want := refcrypto.KDF(key, fcb[0], p0, p1)
						lk.Case(cs, true, fmt.Sprintf("%x", got[:4]))
						if !bytes.Equal(got, want) {
							r.Violate("KDF/value/caller-reuses-buffers", cs, fmt.Sprintf("got %x want %x", got, want), nil)
						}
						if !bytes.Equal(kb, key) || !bytes.Equal(a, p0) || !bytes.Equal(b, p1) {
							r.Violate("KDF/argument-modified", cs, fmt.Sprintf("key %x P0 %x P1 %x after the call", kb, a, b), nil)
						}
						kdfHeld.next(r, "KDF/result-changed-by-a-later-call", got, cs)
					}
				}
			}
		}
		// parameter lengths: one parameter of every length 0..1100, and a 32-octet first parameter (a serving network name)
		// with a second one of every length 0..1100 (the input string S = FC || P0 || L0 || P1 || L1 of every total length)
		for plen := 0; plen <= 1100; plen++ {
			for variant := 0; variant < 2; variant++ {
				var ps [][]byte
				if variant == 0 {
					ps = [][]byte{pattern(2+plen%5, plen)}
				} else {
					ps = [][]byte{[]byte("5G:mnc001.mcc001.3gppnetwork.org"), pattern(3+plen%5, plen)}
				}
				cs := fmt.Sprintf("GetKDFValue FC=6A with parameters of %d and %d octets", len(ps[0]), len(ps[len(ps)-1]))
				var got []byte
				if perr := recoverErr(func() {
					if variant == 0 {
						got = UeauCommon.GetKDFValue(kdfKeys[0], "6A", ps[0], UeauCommon.KDFLen(ps[0]))
					} else {
						got = UeauCommon.GetKDFValue(kdfKeys[0], "6A", ps[0], UeauCommon.KDFLen(ps[0]), ps[1], UeauCommon.KDFLen(ps[1]))
					}
				}); perr != nil {
					r.Violate("KDF/panic", cs, perr.Error(), nil)
					continue
				}
				n++
				lk.Case(cs, true, fmt.Sprintf("%x", got[:4]))
				if want := refcrypto.KDF(kdfKeys[0], 0x6a, ps...); !bytes.Equal(got, want) {
					r.Violate("KDF/value/parameter-length", cs, fmt.Sprintf("got %x want %x", got, want), nil)
				}
			}
		}
		lk.Merge()
		r.Set("kdf_history_calls", n)
		r.Sample("GetKDFValue(K1,FC 6A,..) ; same key buffer overwritten with K2 ; GetKDFValue(K2,FC 6A,..) ; ... results against HMAC-SHA-256 written out by the harness")
	}
	// One subscription object and one UE context kept by the caller and modified IN PLACE between authentications (K, OP,
	// OPc strings overwritten through the pointers GetAuthSubscription returned; K_AMF overwritten inside ue.Kamf before
	// DerivateAlgKey): results must follow the current contents, not what the object held during an earlier call.
	{
		lo := r.Local()
		ue := tglib.NewRanUeContext("imsi-"+supiDigits, 1, 2, 2)
		subs := tglib.GetAuthSubscription(hex.EncodeToString(ks[0]), "", hex.EncodeToString(ops[0]))
		type st struct {
			k, op  []byte
			opOnly bool
		}
		steps := []st{{ks[0], ops[0], true}, {ks[2], ops[0], true}, {ks[2], ops[2], true}, {ks[0], ops[0], false}, {ks[1], ops[1], false}, {ks[1], ops[1], true}, {ks[0], ops[2], true}}
		for i, x := range steps {
			opc := refcrypto.OPc(x.k, x.op)
			subs.PermanentKey.PermanentKeyValue = hex.EncodeToString(x.k)
			subs.Milenage.Op.OpValue = hex.EncodeToString(x.op)
			if x.opOnly {
				subs.Opc.OpcValue = ""
			} else {
				subs.Opc.OpcValue = hex.EncodeToString(opc)
			}
			var autn [16]byte
			copy(autn[0:6], sqnaks[i%len(sqnaks)])
			autn[6] = 0x80
			want := refcrypto.Derive5G(x.k, opc, rands[0], autn[0:6], plmns[0][0], plmns[0][1], supiDigits, 2, 2)
			cs := fmt.Sprintf("one subscription object modified in place, step %d: K=%x.. OP=%x.. opOnly=%v", i, x.k[:2], x.op[:2], x.opOnly)
			var res []byte
			if perr := recoverErr(func() {
				res = ue.DeriveRESstarAndSetKey(subs, autn, append([]byte{}, rands[0]...), refcrypto.SNName(plmns[0][0], plmns[0][1]), plmns[0][1], plmns[0][0])
			}); perr != nil {
				r.Violate("derive/panic", cs, perr.Error(), nil)
				break
			}
			lo.Case(cs, true, fmt.Sprintf("%x", res))
			if !bytes.Equal(res, want.ResStar) || !bytes.Equal(ue.Kamf, want.Kamf) || ue.KnasEnc != want.KnasEnc || ue.KnasInt != want.KnasInt {
				r.Violate("history/subscription-object-reused", cs, fmt.Sprintf("RES* %x (want %x) Kamf %x (want %x)", res, want.ResStar, ue.Kamf, want.Kamf), nil)
				break
			}
			if x.opOnly && subs.Opc.OpcValue != "" {
				r.Violate("history/derivation-wrote-into-the-subscription", cs, "an OPc appeared in the caller's subscription: "+subs.Opc.OpcValue, nil)
			}
			// K_AMF replaced in place, algorithm keys re-derived: for every algorithm pair
			for alg2 := 0; alg2 < 32; alg2++ {
				alg := alg2 / 2 // every pair twice in a row: K_AMF changes while the algorithms stay
				newKamf := refcrypto.KDF(want.Kamf, 0x70+byte(i), []byte{byte(alg2)})
				copy(ue.Kamf, newKamf)
				ue.CipheringAlg, ue.IntegrityAlg = uint8(alg/4), uint8(alg%4)
				if perr := recoverErr(func() { ue.DerivateAlgKey() }); perr != nil {
					r.Violate("DerivateAlgKey/panic", cs, perr.Error(), nil)
					break
				}
				ke := refcrypto.KDF(newKamf, 0x69, []byte{0x01}, []byte{byte(alg / 4)})
				ki := refcrypto.KDF(newKamf, 0x69, []byte{0x02}, []byte{byte(alg % 4)})
				cs2 := fmt.Sprintf("%s ; K_AMF overwritten in place, DerivateAlgKey(enc=%d,int=%d)", cs, alg/4, alg%4)
				lo.Case(cs2, true, "")
				if !bytes.Equal(ue.KnasEnc[:], ke[16:]) || !bytes.Equal(ue.KnasInt[:], ki[16:]) {
					r.Violate("history/DerivateAlgKey-after-K_AMF-changed-in-place", cs2, fmt.Sprintf("K_NASenc %x (want %x) K_NASint %x (want %x)", ue.KnasEnc, ke[16:], ue.KnasInt, ki[16:]), nil)
					break
				}
			}
			ue.CipheringAlg, ue.IntegrityAlg = 2, 2
		}
		lo.Merge()
		r.Sample("one subscription object: derive(K1,OP1 only) ; K overwritten in place ; derive(K2,OP1 only) ; ... ; K_AMF overwritten in place ; DerivateAlgKey for all 16 algorithm pairs, each twice in a row with another K_AMF")
	}
	lh := r.Local()
	nseq := 0
	var rec func(seq []int)
	rec = func(seq []int) {
		if len(seq) > 0 {
			nseq++
			ue := tglib.NewRanUeContext("imsi-"+supiDigits, 1, 2, 2)
			cs := "history on one context:"
			for step, vi := range seq {
				x := vs[vi]
				opc := refcrypto.OPc(x.k, x.op)
				subs := tglib.GetAuthSubscription(hex.EncodeToString(x.k), hex.EncodeToString(opc), hex.EncodeToString(x.op))
				if x.opOnly {
					subs = tglib.GetAuthSubscription(hex.EncodeToString(x.k), "", hex.EncodeToString(x.op))
				}
				var autn [16]byte
				copy(autn[0:6], x.sqnak)
				autn[6] = 0x80
				cs += fmt.Sprintf(" [K=%x OP=%x RAND=%x SQNxorAK=%x PLMN=%s/%s opOnly=%v]", x.k[:2], x.op[:2], x.rand[:2], x.sqnak, x.plmn[0], x.plmn[1], x.opOnly)
				// the other inputs of the derivation live in the context and change between the runs too: the SUPI (K_AMF) and
				// the selected algorithms (K_NAS) - also between two runs with the very same challenge
				stepSupi := []string{supiDigits, "999990123456789", supiDigits}[step%3]
				stepAlg := [][2]int{{2, 2}, {1, 2}, {2, 1}}[step%3]
				ue.Supi = "imsi-" + stepSupi
				ue.CipheringAlg, ue.IntegrityAlg = uint8(stepAlg[0]), uint8(stepAlg[1])
				cs += fmt.Sprintf("(supi %s nea%d nia%d)", stepSupi, byte(stepAlg[0]), byte(stepAlg[1]))
				want := refcrypto.Derive5G(x.k, opc, x.rand, x.sqnak, x.plmn[0], x.plmn[1], stepSupi, byte(stepAlg[0]), byte(stepAlg[1]))
				var res []byte
				if perr := recoverErr(func() {
					res = ue.DeriveRESstarAndSetKey(subs, autn, append([]byte{}, x.rand...), refcrypto.SNName(x.plmn[0], x.plmn[1]), x.plmn[1], x.plmn[0])
				}); perr != nil {
					r.Violate("derive/panic", cs, perr.Error(), seq)
					break
				}
				if !bytes.Equal(res, want.ResStar) || !bytes.Equal(ue.Kamf, want.Kamf) || ue.KnasEnc != want.KnasEnc || ue.KnasInt != want.KnasInt {
					r.Violate("history/derivation-depends-on-earlier-call", cs, fmt.Sprintf("step %d: RES* %x (want %x) Kamf %x (want %x)", step, res, want.ResStar, ue.Kamf, want.Kamf), seq)
					break
				}
			}
			lh.Case(cs, len(seq) > 1, fmt.Sprint(seq))
		}
		if len(seq) == 3 {
			return
		}
		for i := range vs {
			rec(append(append([]int{}, seq...), i))
		}
	}
	rec(nil)
	lh.Merge()
	r.Set("derivation_histories", nseq)
	r.Sample("history on one context: derive(RAND r, SQN^AK a) ; derive(RAND r, SQN^AK b) ; derive(RAND r, PLMN 310/410)")
}
