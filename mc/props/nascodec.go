package props

import (
	"fmt"
	"mc/report"
	"path/filepath"
	"reflect"
	"sync"

	"free5gclib/nas"
	"mc/refnas"
)

var nasTablePath = filepath.Join(report.VerifDir, "mc/spec/ts24501.json")

var (
	nasTableOnce sync.Once
	nasTable     *refnas.Table
	nasTableErr  error
)

func loadNasTable() (*refnas.Table, error) {
	nasTableOnce.Do(func() { nasTable, nasTableErr = refnas.LoadTable(nasTablePath) })
	return nasTable, nasTableErr
}

// nasAbstract is a message value independent of the library's Go types.
type nasAbstract struct {
	mand [][]byte
	opts []refnas.OptVal
}

// nasSetIE writes a value into one nasType struct (addressable) according to its shape.
func nasSetIE(v reflect.Value, iei byte, val []byte, half bool) error {
	if f := v.FieldByName("Iei"); f.IsValid() {
		f.SetUint(uint64(iei))
	}
	lenF := v.FieldByName("Len")
	if lenF.IsValid() {
		lenF.SetUint(uint64(len(val)))
	}
	if b := v.FieldByName("Buffer"); b.IsValid() {
		b.SetBytes(append([]byte{}, val...))
		return nil
	}
	o := v.FieldByName("Octet")
	if !o.IsValid() {
		return fmt.Errorf("shape without Buffer/Octet: %s", v.Type())
	}
	if o.Kind() == reflect.Uint8 {
		if half {
			o.SetUint(uint64(iei<<4 | val[0]&0xf))
		} else if len(val) == 1 {
			o.SetUint(uint64(val[0]))
		} else {
			return fmt.Errorf("%s holds one octet, value has %d", v.Type(), len(val))
		}
		return nil
	}
	if len(val) > o.Len() {
		return fmt.Errorf("%s holds %d octets, value has %d", v.Type(), o.Len(), len(val))
	}
	for i := range val {
		o.Index(i).SetUint(uint64(val[i]))
	}
	return nil
}

// nasGetIE reads the value back (length from Len when there is one).
func nasGetIE(v reflect.Value, fixedLen int, half bool) []byte {
	if b := v.FieldByName("Buffer"); b.IsValid() {
		out := append([]byte{}, b.Bytes()...)
		if l := v.FieldByName("Len"); l.IsValid() && int(l.Uint()) < len(out) {
			out = out[:l.Uint()]
		}
		return out
	}
	o := v.FieldByName("Octet")
	if o.Kind() == reflect.Uint8 {
		if half {
			return []byte{byte(o.Uint()) & 0xf}
		}
		return []byte{byte(o.Uint())}
	}
	n := o.Len()
	if l := v.FieldByName("Len"); l.IsValid() {
		if int(l.Uint()) < n {
			n = int(l.Uint())
		}
	} else if fixedLen > 0 && fixedLen < n {
		n = fixedLen
	}
	out := make([]byte, n)
	for i := range out {
		out[i] = byte(o.Index(i).Uint())
	}
	return out
}

// nasBuild makes a library message from an abstract one.
func nasBuild(t *refnas.TMsg, a nasAbstract) (*nas.Message, error) {
	m := nas.NewMessage()
	var holder reflect.Value
	if t.EPD == 0x7e {
		m.GmmMessage = nas.NewGmmMessage()
		m.GmmHeader.SetMessageType(t.MsgType)
		m.GmmHeader.SetExtendedProtocolDiscriminator(t.EPD)
		holder = reflect.ValueOf(m.GmmMessage).Elem()
	} else {
		m.GsmMessage = nas.NewGsmMessage()
		m.GsmHeader.SetMessageType(t.MsgType)
		m.GsmHeader.SetExtendedProtocolDiscriminator(t.EPD)
		holder = reflect.ValueOf(m.GsmMessage).Elem()
	}
	f := holder.FieldByName(t.Name)
	if !f.IsValid() {
		return nil, fmt.Errorf("library has no message %s", t.Name)
	}
	f.Set(reflect.New(f.Type().Elem()))
	msg := f.Elem()
	for i, e := range t.Mandatory {
		fv := msg.FieldByName(e.IE)
		if !fv.IsValid() {
			return nil, fmt.Errorf("%s has no field %s", t.Name, e.IE)
		}
		if err := nasSetIE(fv, 0, a.mand[i], false); err != nil {
			return nil, err
		}
	}
	for _, o := range a.opts {
		e := t.Optional[o.Idx]
		fv := msg.FieldByName(e.IE)
		if !fv.IsValid() {
			return nil, fmt.Errorf("%s has no field %s", t.Name, e.IE)
		}
		fv.Set(reflect.New(fv.Type().Elem()))
		if err := nasSetIE(fv.Elem(), e.IEI, o.Val, e.Fmt == "TV-half"); err != nil {
			return nil, err
		}
	}
	return m, nil
}

// nasExtract reads a decoded library message back into the abstract form (optional IEs in table order).
func nasExtract(t *refnas.TMsg, m *nas.Message) (nasAbstract, error) {
	var a nasAbstract
	var holder reflect.Value
	if t.EPD == 0x7e {
		if m.GmmMessage == nil {
			return a, fmt.Errorf("no 5GMM message decoded")
		}
		holder = reflect.ValueOf(m.GmmMessage).Elem()
	} else {
		if m.GsmMessage == nil {
			return a, fmt.Errorf("no 5GSM message decoded")
		}
		holder = reflect.ValueOf(m.GsmMessage).Elem()
	}
	f := holder.FieldByName(t.Name)
	if !f.IsValid() || f.IsNil() {
		return a, fmt.Errorf("decoder did not fill %s", t.Name)
	}
	msg := f.Elem()
	for _, e := range t.Mandatory {
		a.mand = append(a.mand, nasGetIE(msg.FieldByName(e.IE), e.Len, false))
	}
	for i, e := range t.Optional {
		fv := msg.FieldByName(e.IE)
		if fv.IsNil() {
			continue
		}
		a.opts = append(a.opts, refnas.OptVal{Idx: i, Val: nasGetIE(fv.Elem(), e.Len, e.Fmt == "TV-half")})
	}
	return a, nil
}

func nasAbstractString(t *refnas.TMsg, a nasAbstract) string {
	s := t.Name + " M["
	for i, v := range a.mand {
		if i >= 2 {
			s += fmt.Sprintf(" %x", v)
		}
	}
	s += " ] O["
	for _, o := range a.opts {
		v := o.Val
		if len(v) > 8 {
			s += fmt.Sprintf(" %02X:%x..(%d)", t.Optional[o.Idx].IEI, v[:8], len(v))
		} else {
			s += fmt.Sprintf(" %02X:%x", t.Optional[o.Idx].IEI, v)
		}
	}
	return s + " ]"
}

func nasEqual(a, b nasAbstract) string {
	if len(a.mand) != len(b.mand) {
		return "mandatory count"
	}
	for i := range a.mand {
		if string(a.mand[i]) != string(b.mand[i]) {
			return fmt.Sprintf("mandatory field %d: %x vs %x", i, a.mand[i], b.mand[i])
		}
	}
	if len(a.opts) != len(b.opts) {
		return fmt.Sprintf("optional IE count %d vs %d", len(a.opts), len(b.opts))
	}
	for i := range a.opts {
		if a.opts[i].Idx != b.opts[i].Idx || string(a.opts[i].Val) != string(b.opts[i].Val) {
			return fmt.Sprintf("optional IE %d: idx %d %x vs idx %d %x", i, a.opts[i].Idx, a.opts[i].Val, b.opts[i].Idx, b.opts[i].Val)
		}
	}
	return ""
}

// nasMandatoryDefault: header octets per TS 24.501 9.1 and distinguishable values for the other mandatory fields.
func nasMandatoryDefault(t *refnas.TMsg, variant int) [][]byte {
	var out [][]byte
	for i, e := range t.Mandatory {
		var v []byte
		switch {
		case i == 0:
			v = []byte{t.EPD}
		case t.EPD == 0x7e && i == 1:
			v = []byte{0x00} // plain 5GS NAS message
		case t.EPD == 0x7e && i == 2, t.EPD == 0x2e && i == 3:
			v = []byte{t.MsgType}
		case t.EPD == 0x2e && i == 1:
			v = []byte{byte(5 + variant)} // PDU session identity
		case t.EPD == 0x2e && i == 2:
			v = []byte{byte(0x21 + variant)} // PTI
		case e.Fmt == "V":
			v = pattern(3+variant, e.Len)
			for k := range v {
				v[k] = byte(0x10*(i+1) + k + variant)
			}
		default:
			n := 3 + i + variant
			if e.Cap > 0 && (n > e.Cap || e.Fixed) {
				n = e.Cap
			}
			v = make([]byte, n)
			for k := range v {
				v[k] = byte(0xa0 + i*8 + k)
			}
		}
		out = append(out, v)
	}
	return out
}

// nasOptLengths: value lengths to try for an optional IE (within its capacity).
func nasOptLengths(e refnas.TOpt) []int {
	switch e.Fmt {
	case "TV-half":
		return []int{1}
	case "TV":
		return []int{e.Len}
	}
	if e.Fixed1 {
		return []int{1}
	}
	if e.Fixed {
		return []int{e.Cap}
	}
	if e.Cap > 0 && e.Cap <= 32 {
		// a small IE: every length it can have (an S-NSSAI is 1, 2, 4, 5 or 8 octets long: none of them is special here)
		out := []int{1}
		for n := 0; n <= e.Cap; n++ {
			if n != 1 {
				out = append(out, n)
			}
		}
		return out
	}
	cands := []int{1, 2, 0, 3, 16, 255}
	if e.Fmt == "TLV-E" {
		cands = append(cands, 256, 1000)
		if e.Cap == 0 {
			cands = append(cands, 65533, 65534, 65535) // the top of a two-octet length indicator
		}
	}
	var out []int
	for _, n := range cands {
		if e.Cap > 0 && n > e.Cap {
			continue
		}
		out = append(out, n)
	}
	if e.Cap > 0 {
		out = append(out, e.Cap)
	}
	return out
}

func nasOptValue(e refnas.TOpt, n, content int) []byte {
	if e.Fmt == "TV-half" {
		return []byte{byte(content*5+3) & 0xf}
	}
	v := make([]byte, n)
	for k := range v {
		switch content {
		case 0:
			v[k] = byte(int(e.IEI) + k + 1)
		case 1:
			v[k] = 0
		default:
			v[k] = 0xff
		}
	}
	return v
}

func nasMsgByName(t *refnas.Table, name string) *refnas.TMsg {
	for i := range t.Messages {
		if t.Messages[i].Name == name {
			return &t.Messages[i]
		}
	}
	return nil
}
