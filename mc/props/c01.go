package props

import (
	"fmt"
	"time"

	"mc/explore"
	"mc/n2"
	"mc/refamf"
	"mc/report"
)

func init() { register("C01", "model_checking", runC01) }

func runC01(ctx *Ctx) {
	r := ctx.R
	codec := getCodec(r)
	if codec == nil {
		return
	}
	bound := 2
	budget := 10 * time.Minute // (seconds on an idle machine; a busy one must not shrink the quick tier)
	if ctx.Thorough {
		bound = 3
		budget = 14 * time.Minute
	}
	st := newN2stats()
	locals := make([]*report.Local, Workers())
	for i := range locals {
		locals[i] = r.Local()
	}
	body := func(c *explore.Chooser, w int) {
		emu, acfg := n2config(c)
		ch := n2choices(c)
		nue := 1 + c.Pick("registered-UEs", 2)
		emu.Reg, emu.Pdu, emu.Svc, emu.Rel, emu.Dereg = nue, 0, 0, 0, 0
		a := refamf.New(acfg, ch, codec)
		res := n2.Run(n2.Opts{YAML: emu.YAML(), AMF: a})
		cs := "registration: " + c.Describe()
		out := n2judge(r, cs, res, a, func(u *refamf.UE) string { return "REGISTERED/S_NONE/service-requests=0" }, nue, c.Picks)
		for _, u := range a.UEs() {
			if out[:2] == "ok" && u.ULCount() != 2 {
				r.Violate("registration/uplink-count", cs, fmt.Sprintf("%s used %d protected uplink messages, expected 2 (Security Mode Complete, Registration Complete)", u.Supi, u.ULCount()), c.Picks)
			}
		}
		st.add(a)
		locals[w].Case(cs, c.Deviations() > 0, out)
	}
	stx := explore.Explore(explore.Config{Bound: bound, Workers: Workers(), Deadline: time.Now().Add(budget)}, body)
	for _, l := range locals {
		l.Merge()
	}
	r.Set("states", len(st.states))
	r.Set("transitions", len(st.transitions))
	r.Set("traces_validated_against_impl", st.runs)
	r.Set("bound_completed", stx.BoundCompleted)
	r.Set("executions_per_level", stx.PerLevel)
	if !stx.Complete {
		r.NotExhaustive(fmt.Sprintf("budget ended in deviation level %d after %d executions of it", stx.BoundCompleted+1, stx.BeyondBound))
	}
	r.Sample("default: imsi 001010000000001, README credentials, gNB 000102/24 'open5gs'; AMF: RAND 2355.., SQN 16f3b3f70fc2, AMF 8000, AMF-UE-NGAP-ID 1, ngKSI 0, no optional IEs; 1 UE -> NGSetup, InitialUE(RegistrationRequest), AuthenticationResponse, SecurityModeComplete, ICS response, RegistrationComplete")
	r.Sample("deviation: AMF-UE-NGAP-ID=8 (2^40-2), registered-UEs=1 (two UEs)")
	r.Rule = fmt.Sprintf("real emulator process (stgutgmain -t, build tag verif, no-op Sleep) x reference AMF model over a socketpair: every vector with <=%d deviations from the default over configuration (11 IMSI/PLMN shapes incl. 12/14 digits with 2- and 3-digit MNC and MSINs whose successor needs a carry through 9s, 4 K/OP values, OPc / OP-only / OPc-without-OP, gNB id length 22..32 (all) x 4 contents (incl. octets that are white space as text at both ends), 5 names (incl. every punctuation mark of PrintableString and blanks at the ends)) x AMF choices (RAND 4, SQN 5, AMF field 3, AMF-UE-NGAP-ID 9 values up to 2^40-2, ngKSI 0..6, 6 optional IEs in DownlinkNASTransport, 7 in InitialContextSetupRequest, 3 NGSetupResponse shapes, IMEISV request, RINMR, how RAND and SQN vary from UE to UE {fresh RAND, same RAND with SQN+1, both, neither}) x {1,2} UEs; "+
		"oracle = the model accepts every uplink message in its state (NGAP decodes by the independent decoder as the expected message, mandatory IEs/criticalities, assigned ids, PLMN, SUCI -> provisioned SUPI, RES* = XRES*, header types, MAC under the network's keys, COUNT = previous+1 from 0), the process exits 0 with the banner, every UE ends REGISTERED; states/transitions = distinct abstract model states/labelled transitions visited; every model trace is executed against the implementation", bound)
	r.Assume("reference AMF follows the Open5GS message flow (Configuration Update Command after Registration Complete)", "time: Sleep is a no-op in the emulator build; the reference AMF is reactive and sequential, so message sequences do not depend on timing (checked by the real-time replays of C19 thorough)",
		"K/RAND values outside the alphabets are not enumerated (C05 widens them at function level)")
}
