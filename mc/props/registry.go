// Package props holds one harness per property.
package props

import (
	"strings"
	"fmt"
	"mc/explore"
	"os"
	"os/exec"
	"path/filepath"
	"runtime"
	"sync"

	"mc/report"
)

type Ctx struct {
	R        *report.Report
	Tier     string
	Thorough bool
	Seed     int64
	Replay   string
	Shard    int // child: my shard; parent: 0
	NShards  int // 0 = this is the parent process
}

// MarkCase records (in a shard process) the case about to run, so that the parent can attribute a process death to it.
func (c *Ctx) MarkCase(desc string) {
	if p := os.Getenv("MC_PARTIAL"); p != "" {
		os.WriteFile(p+".cur", []byte(desc), 0o644)
	}
}

// ClearCase forgets the marker (the case returned) and saves progress made so far.
func (c *Ctx) ClearCase() {
	if p := os.Getenv("MC_PARTIAL"); p != "" {
		os.Remove(p + ".cur")
	}
}

// IsChild reports whether this process is one shard of a forked run.
func (c *Ctx) IsChild() bool { return c.NShards > 0 }

// Mine says whether work item i belongs to this shard (always true when not sharded).
func (c *Ctx) Mine(i int) bool { return c.NShards == 0 || i%c.NShards == c.Shard }

// Isolate runs the rest of a check in single-threaded shard processes: in the parent it forks the shards, merges
// their reports and returns true (the caller returns); in a shard it returns false and every ParallelFor of the
// check then runs this shard's share of the items sequentially. The code under test is thereby never called from
// two goroutines of one process (its package-level state, if a change introduces any, is private to a shard and
// evolves deterministically), which is C20's business and not that of the other properties. Sections that must run
// once are guarded by Lead().
func (c *Ctx) Isolate() bool {
	if c.IsChild() {
		seqShard, seqShards = c.Shard, c.NShards
		explore.DefaultShard, explore.DefaultShards = c.Shard, c.NShards
		c.R.DropMeta = c.Shard != 0
		return false
	}
	c.Fork(Workers())
	return true
}

// Lead says whether this process runs the once-only sections (unsharded run, or shard 0).
func (c *Ctx) Lead() bool { return c.NShards == 0 || c.Shard == 0 }

var seqShard, seqShards int // set by Isolate in a shard: ParallelFor runs sequentially over this shard's items

// Fork re-executes this binary n times as shard processes of the same property and tier (each
// single-threaded: package-level state of the code under test is then private to a shard) and
// merges their partial reports. A child that dies was killed by the code it was exercising (the harness itself does not die on the unchanged tree): a verdict.
func (c *Ctx) Fork(n int) {
	dir, err := os.MkdirTemp(report.BuildDir, "run.")
	if err != nil {
		c.R.HarnessError(err.Error())
		return
	}
	defer os.RemoveAll(dir)
	exe, _ := os.Executable()
	var wg sync.WaitGroup
	errs := make([]error, n)
	outs := make([][]byte, n)
	for i := 0; i < n; i++ {
		wg.Add(1)
		go func(i int) {
			defer wg.Done()
			part := filepath.Join(dir, fmt.Sprintf("part%d.json", i))
			cmd := exec.Command(exe, "-prop", c.R.ID, "-tier", c.Tier, "-shard", fmt.Sprint(i), "-nshards", fmt.Sprint(n), "-partial", part)
			cmd.Env = append(os.Environ(), "GOMAXPROCS=1", "MC_PARTIAL="+part)
			cmd.Dir = dir
			outs[i], errs[i] = cmd.CombinedOutput()
			if errs[i] == nil {
				errs[i] = c.R.MergePartial(part)
			}
		}(i)
	}
	wg.Wait()
	for i, e := range errs {
		if e != nil {
			tail := string(outs[i])
			if len(tail) > 2000 {
				tail = tail[len(tail)-2000:]
			}
			// a shard that announced the case it was running (MarkCase) and then died was killed by the code under test
			// (os.Exit / fatal in a repository function): that is a verdict about the case, not a harness error
			cur, rerr := os.ReadFile(filepath.Join(dir, fmt.Sprintf("part%d.json.cur", i)))
			if rerr == nil && len(cur) > 0 {
				c.R.Violate("process-ended-by-code-under-test", string(cur), fmt.Sprintf("shard process ended (%v) while running this case; output tail: %s", e, tail), nil)
				c.R.NotExhaustive("a shard process was ended by the code under test; the rest of that shard was not run")
				c.R.MergePartial(filepath.Join(dir, fmt.Sprintf("part%d.json.progress", i)))
				continue
			}
			if (strings.Contains(e.Error(), "exit status") || strings.Contains(e.Error(), "signal:")) && !strings.Contains(e.Error(), "signal: killed") && !strings.Contains(e.Error(), "signal: terminated") {
				// (SIGKILL / SIGTERM come from outside - an operator, the kernel's OOM killer - and stay harness errors)
				// the shard died while it was exercising the code under check without having announced a case: a fatal
				// error, a panic in a goroutine the check cannot recover in, or the library ending the process (os.Exit /
				// log.Fatal). On the unchanged tree no shard dies, so this is a verdict about the tree; which call it was is in
				// the output tail (a panic's stack names the check's call site).
				c.R.Violate("process-died-while-checking/"+dieClass(tail), fmt.Sprintf("shard %d/%d ended with %v", i, n, e), tail, nil)
				c.R.NotExhaustive("a shard process died; the rest of that shard was not run")
				continue
			}
			c.R.HarnessError(fmt.Sprintf("shard %d/%d failed: %v: %s", i, n, e, tail))
		}
	}
}

type Prop struct {
	Level string
	Run   func(*Ctx)
}

var Registry = map[string]Prop{}

func register(id, level string, run func(*Ctx)) { Registry[id] = Prop{level, run} }

func Workers() int { return runtime.GOMAXPROCS(0) }

// ParallelFor runs fn(worker, i) for i in [0,n) over Workers() goroutines, each with its own Local.
func ParallelFor(r *report.Report, n int, fn func(l *report.Local, i int)) {
	if seqShards > 0 {
		l := r.Local()
		for i := seqShard; i < n; i += seqShards {
			fn(l, i)
			if (i/seqShards)%4096 == 4095 {
				l.Merge()
			}
		}
		l.Merge()
		return
	}
	var wg sync.WaitGroup
	var mu sync.Mutex
	next := 0
	chunk := n/(Workers()*8) + 1
	for w := 0; w < Workers(); w++ {
		wg.Add(1)
		go func() {
			defer wg.Done()
			l := r.Local()
			for {
				mu.Lock()
				lo := next
				next += chunk
				mu.Unlock()
				if lo >= n {
					break
				}
				hi := lo + chunk
				if hi > n {
					hi = n
				}
				for i := lo; i < hi; i++ {
					fn(l, i)
				}
				l.Merge()
			}
		}()
	}
	wg.Wait()
}

// WorkerMain is the entry point of re-executed worker processes (see worker.go).
var workerKinds = map[string]func(args []string){}

func WorkerMain(args []string) {
	if len(args) == 0 {
		panic("worker: no kind")
	}
	k, ok := workerKinds[args[0]]
	if !ok {
		panic("worker: unknown kind " + args[0])
	}
	k(args[1:])
}


// dieClass: a finding-key component from the output of a shard process that died (the kind of death, and the first
// frame inside the repository if there is one).
func dieClass(out string) string {
	kind := "exit"
	switch {
	case strings.Contains(out, "fatal error:"):
		kind = "fatal-error"
	case strings.Contains(out, "panic:"):
		kind = "panic"
	}
	for _, l := range strings.Split(out, "\n") {
		l = strings.TrimSpace(l)
		for _, pre := range []string{"free5gclib/", "tglib", "stgutg"} {
			if strings.HasPrefix(l, pre) && strings.Contains(l, "(") {
				f := l[:strings.Index(l, "(")]
				if len(f) > 60 {
					f = f[:60]
				}
				return kind + "/" + strings.ReplaceAll(f, " ", "")
			}
		}
	}
	return kind
}
