package props

import (
	"free5gclib/ngap/ngapType"
	"bytes"
	"fmt"
	"free5gclib/UeauCommon"
	"free5gclib/milenage"
	"free5gclib/nas/nasConvert"
	"free5gclib/nas/nasType"
	"free5gclib/ngap/ngapConvert"
	"free5gclib/openapi/models"
	"net"
	"stgutg"

	"free5gclib/nas"
	"free5gclib/nas/nasTestpacket"
	"free5gclib/nas/security"
	"free5gclib/ngap"
	"mc/refcrypto"
	"mc/refnas"
	"tglib"
)

// c20op: one operation of one emulated UE, on that UE's own context, keys and messages. It returns a digest of
// everything it produced. want() is the digest a correct implementation gives (from the references where there
// is one, else from a run in isolation).
type c20op struct {
	name string
	run  func(ue int) string
}

// c20key: the key of UE ue. The keys of different UEs are distinct but consist of the same sixteen octets, with two
// middle octets exchanged per UE: they collide under every hash or index that ignores the order of the octets (XOR,
// sum) or looks only at the first or last octets - the place where per-key state added to the library (a key schedule
// cache, a per-key context) would be shared between UEs.
// c20operatorRecord: one operator's subscription template (OP only), copied per UE.
var c20operatorRecord = tglib.GetAuthSubscription("00000000000000000000000000000000", "", "0102030405060708090a0b0c0d0e0f10")

func c20key(ue int, salt byte) [16]byte {
	var k [16]byte
	for i := range k {
		k[i] = byte(i*7+3) ^ salt
	}
	if ue > 0 {
		a, b := 4+(ue-1)%4, 8+(ue-1)%4+((ue-1)/4)%4
		k[a], k[b] = k[b], k[a]
		for i := range k {
			k[i] ^= byte((ue - 1) / 16) // (the free-running pass has up to 64 UEs: the XOR over the sixteen octets stays the same)
		}
	}
	return k
}

// c20ops: the 21 single operations followed by two-operation sequences (one thread performs both on its UE: state
// that the first leaves behind - a cache entry, a pooled buffer, a counter - meets the second and the other thread).
func c20ops() []c20op {
	base := c20single()
	byName := map[string]c20op{}
	for _, o := range base {
		byName[o.name] = o
	}
	for _, pr := range c20sequences {
		a, b := byName[pr[0]], byName[pr[1]]
		base = append(base, c20op{pr[0] + " ; " + pr[1], func(ue int) string { return a.run(ue) + " ; " + b.run(ue) }})
	}
	return base
}

var c20sequences = [][2]string{{"NEA1", "NIA1"}, {"NIA1(300 octets)", "NEA1(300 octets)"}, {"NEA2", "NIA2"}, {"NGAP-encode-decode", "NGAP builders"}, {"NAS-plain-codec", "NAS constructors"},
	{"DeriveRESstarAndSetKey(OP only)", "DeriveRESstarAndSetKey"}, {"Milenage+KDF", "DeriveRESstarAndSetKey(OP only)"}, {"SUCI+CreateUE+capability", "identifier conversions"},
	{"NASEncode(NIA1,NEA1)", "NASDecode(NIA1,NEA1)"}, {"NASEncode(NIA2,NEA2)", "NASDecode(NIA2,NEA0)"}, {"NAS constructors", "NASEncode(NIA2,NEA2)"},
	// the same primitive twice with the same key (the second call meets what the first left behind for that key), and a
	// refused encoding followed by a valid one (error paths release things, too)
	{"NEA2", "NEA2"}, {"NIA2", "NIA2"}, {"NGAP refused encode", "NGAP-encode-decode"}}

// c20long: operations on long messages (several kilo-octets: above any chunk size an implementation may work in). They
// have thousands of scheduling points, so the scheduler takes them in thorough only (each against itself); the
// free-running pass runs them in both tiers.
func c20long() []c20op {
	msg := func(ue, n int) []byte { return pattern(3+ue, n) }
	return []c20op{
		{"NEA1(9000 octets)", func(ue int) string {
			p := msg(ue, 9000+ue)
			err := security.NASEncrypt(security.AlgCiphering128NEA1, c20key(ue, 11), uint32(ue+1), 1, 0, p)
			return fmt.Sprintf("%x %v", refcrypto.CMAC(make([]byte, 16), p), err)
		}},
		{"NIA1(9000 octets)", func(ue int) string {
			m, err := security.NASMacCalculate(security.AlgIntegrity128NIA1, c20key(ue, 12), uint32(ue+1), 1, 1, msg(ue, 9000+ue))
			return fmt.Sprintf("%x %v", m, err)
		}},
		{"NEA2(9000 octets)", func(ue int) string {
			p := msg(ue, 9000+ue)
			err := security.NASEncrypt(security.AlgCiphering128NEA2, c20key(ue, 13), uint32(ue+1), 1, 0, p)
			return fmt.Sprintf("%x %v", refcrypto.CMAC(make([]byte, 16), p), err)
		}},
		{"NIA2(9000 octets)", func(ue int) string {
			m, err := security.NASMacCalculate(security.AlgIntegrity128NIA2, c20key(ue, 14), uint32(ue+1), 1, 1, msg(ue, 9000+ue))
			return fmt.Sprintf("%x %v", m, err)
		}},
	}
}

func c20single() []c20op {
	msg := func(ue, n int) []byte { return pattern(3+ue, n) }
	return []c20op{
		{"NEA1", func(ue int) string {
			p := msg(ue, 5)
			if err := security.NASEncrypt(security.AlgCiphering128NEA1, c20key(ue, 1), uint32(ue+1), 1, 0, p); err != nil {
				return err.Error()
			}
			return fmt.Sprintf("%x", p)
		}},
		{"NIA1", func(ue int) string {
			m, err := security.NASMacCalculate(security.AlgIntegrity128NIA1, c20key(ue, 2), uint32(ue+1), 1, 1, msg(ue, 9))
			return fmt.Sprintf("%x %v", m, err)
		}},
		{"NEA2", func(ue int) string {
			p := msg(ue, 21)
			err := security.NASEncrypt(security.AlgCiphering128NEA2, c20key(ue, 3), uint32(ue+1), 1, 0, p)
			return fmt.Sprintf("%x %v", p, err)
		}},
		{"NIA2", func(ue int) string {
			m, err := security.NASMacCalculate(security.AlgIntegrity128NIA2, c20key(ue, 4), uint32(ue+1), 1, 1, msg(ue, 17))
			return fmt.Sprintf("%x %v", m, err)
		}},
		{"NGAP-encode-decode", func(ue int) string {
			// a different message type per UE (shared struct types such as InitiatingMessage / SuccessfulOutcome then carry
			// different procedure codes and IE ids in the two threads)
			var b []byte
			var err error
			switch ue % 3 {
			case 0:
				b, err = tglib.GetUplinkNASTransport(int64(1000+ue), int64(ue+1), msg(ue, 12))
			case 1:
				b, err = tglib.GetInitialUEMessage(int64(ue+1), msg(ue, 20), "")
			default:
				b, err = tglib.GetPDUSessionResourceSetupResponse(int64(1000+ue), int64(ue+1), 5, fmt.Sprintf("10.0.%d.7", ue))
			}
			if err != nil {
				return err.Error()
			}
			pdu, err := ngap.Decoder(b)
			if err != nil {
				return err.Error()
			}
			re, err := ngap.Encoder(*pdu)
			return fmt.Sprintf("%x %v %v", b, bytes.Equal(re, b), err)
		}},
		{"NAS-plain-codec", func(ue int) string {
			var b []byte
			switch ue % 3 {
			case 0:
				b = nasTestpacket.GetAuthenticationResponse(msg(ue, 16), "")
			case 1:
				b = nasTestpacket.GetUlNasTransport_PduSessionEstablishmentRequest(5, 1, "internet", nil)
			default:
				b = nasTestpacket.GetSecurityModeComplete(msg(ue, 30))
			}
			m := nas.NewMessage()
			if err := m.PlainNasDecode(&b); err != nil {
				return err.Error()
			}
			re, err := m.PlainNasEncode()
			// the bytes are looked at only after a second, different encode has used the codec again (a result that
			// aliases a recycled buffer changes under the caller's feet)
			m2 := nas.NewMessage()
			b2 := nasTestpacket.GetRegistrationComplete(nil)
			if err2 := m2.PlainNasDecode(&b2); err2 == nil {
				m2.PlainNasEncode()
			}
			return fmt.Sprintf("%x %v %v", re, bytes.Equal(re, b), err)
		}},
		{"NASEncode(NIA1,NEA1)", func(ue int) string { return c20protect(ue, 1, 1) }},
		{"NASEncode(NIA2,NEA2)", func(ue int) string { return c20protect(ue, 2, 2) }},
		{"NASDecode(NIA1,NEA1)", func(ue int) string { return c20unprotect(ue, 1, 1) }},
		{"NASDecode(NIA2,NEA0)", func(ue int) string { return c20unprotect(ue, 2, 0) }},
		{"DeriveRESstarAndSetKey", func(ue int) string {
			u := tglib.NewRanUeContext(fmt.Sprintf("imsi-00101000000000%d", ue), int64(ue), 1, 1)
			k := c20key(ue, 5)
			opc := c20key(ue, 6)
			subs := tglib.GetAuthSubscription(fmt.Sprintf("%x", k), fmt.Sprintf("%x", opc), "")
			var autn [16]byte
			autn[5] = byte(ue)
			rand := c20key(ue, 7)
			res := u.DeriveRESstarAndSetKey(subs, autn, rand[:], "5G:mnc001.mcc001.3gppnetwork.org", "01", "001")
			return fmt.Sprintf("%x %x %x %x", res, u.Kamf, u.KnasEnc, u.KnasInt)
		}},
		{"NEA1(300 octets)", func(ue int) string {
			p := msg(ue, 300+ue)
			if err := security.NASEncrypt(security.AlgCiphering128NEA1, c20key(ue, 12), uint32(ue+9), 1, 0, p); err != nil {
				return err.Error()
			}
			return fmt.Sprintf("%x", p)
		}},
		{"NIA1(300 octets)", func(ue int) string {
			m, err := security.NASMacCalculate(security.AlgIntegrity128NIA1, c20key(ue, 13), uint32(ue+9), 1, 1, msg(ue, 300+ue))
			return fmt.Sprintf("%x %v", m, err)
		}},
		{"NEA2(300 octets)", func(ue int) string {
			p := msg(ue, 300+ue)
			err := security.NASEncrypt(security.AlgCiphering128NEA2, c20key(ue, 14), uint32(ue+9), 1, 0, p)
			return fmt.Sprintf("%x %v", p, err)
		}},
		{"DeriveRESstarAndSetKey(OP only)", func(ue int) string {
			// no OPc provisioned: the OP-only branch, a different K and OP per UE
			u := tglib.NewRanUeContext(fmt.Sprintf("imsi-00101000000001%d", ue), int64(ue), 2, 2)
			k, op := c20key(ue, 15), c20key(ue, 16)
			subs := tglib.GetAuthSubscription(fmt.Sprintf("%x", k), "", fmt.Sprintf("%x", op))
			var autn [16]byte
			autn[4] = byte(ue + 1)
			rand := c20key(ue, 17)
			res := u.DeriveRESstarAndSetKey(subs, autn, rand[:], "5G:mnc001.mcc001.3gppnetwork.org", "01", "001")
			return fmt.Sprintf("%x %x %x %x", res, u.Kamf, u.KnasEnc, u.KnasInt)
		}},
		{"Milenage+KDF", func(ue int) string {
			k, op, rnd := c20key(ue, 18), c20key(ue, 19), c20key(ue, 20)
			opc, err := milenage.GenerateOPC(k[:], op[:])
			if err != nil {
				return err.Error()
			}
			macA, macS := make([]byte, 8), make([]byte, 8)
			res, ck, ik, ak, aks := make([]byte, 8), make([]byte, 16), make([]byte, 16), make([]byte, 6), make([]byte, 6)
			sqn, amf := []byte{0, 0, 0, 0, 0, byte(ue + 1)}, []byte{0x80, byte(ue)}
			e1 := milenage.F1(opc, k[:], rnd[:], sqn, amf, macA, macS)
			e2 := milenage.F2345(opc, k[:], rnd[:], res, ck, ik, ak, aks)
			kdf := UeauCommon.GetKDFValue(append(ck, ik...), "6A", []byte("5G:mnc001.mcc001.3gppnetwork.org"), UeauCommon.KDFLen([]byte("5G:mnc001.mcc001.3gppnetwork.org")), ak, UeauCommon.KDFLen(ak))
			return fmt.Sprintf("%x %x %x %x %x %x %x %x %x %v %v", opc, macA, macS, res, ck, ik, ak, aks, kdf, e1, e2)
		}},
		{"SUCI+CreateUE+capability", func(ue int) string {
			imsi := fmt.Sprintf("00101%010d", 1000*ue+7)
			suci := stgutg.EncodeSuci([]byte(imsi), 2)
			first := append([]byte{}, suci.Buffer...)
			u := stgutg.CreateUE(imsi, ue, fmt.Sprintf("%x", c20key(ue, 21)), fmt.Sprintf("%x", c20key(ue, 22)), "")
			ctx := tglib.NewRanUeContext(u.Supi, int64(ue), uint8(ue%3), uint8(1+ue%2))
			capab := ctx.GetUESecurityCapability()
			// the 5GMM capability handed out is the caller's to adapt (S1 mode off for this UE): what the next UE is handed must not show it
			mm := ctx.Get5GMMCapability()
			before := mm.Octet[0]
			mm.Octet[0] = byte(0x10 + ue)
			return fmt.Sprintf("%x %x %s %d %x %v %x", first, suci.Buffer, u.Supi, u.RanUeNgapId, capab.Buffer, u.AuthenticationSubs.PermanentKey.PermanentKeyValue, before)
		}},
		{"identifier conversions", func(ue int) string {
			plmn := nasConvert.PlmnIDToNas(models.PlmnId{Mcc: fmt.Sprintf("%03d", 200+ue), Mnc: fmt.Sprintf("%02d", 10+ue)})
			sn := nasConvert.SnssaiToNas(models.Snssai{Sst: int32(1 + ue), Sd: fmt.Sprintf("0%d0203", ue)})
			pco := nasConvert.NewProtocolConfigurationOptions()
			pco.AddDNSServerIPv4Address(net.IPv4(8, 8, byte(ue), 4))
			pco.AddIPv4LinkMTU(uint16(1400 + ue))
			pb := pco.Marshal()
			ip := ngapConvert.IPAddressToNgap(fmt.Sprintf("10.0.%d.1", ue), "")
			// the earlier results are looked at after the later conversions
			return fmt.Sprintf("%x %x %x %x", plmn, sn, pb, ip.Value.Bytes)
		}},
		{"NAS constructors", func(ue int) string {
			suci := stgutg.EncodeSuci([]byte(fmt.Sprintf("00101%010d", ue+1)), 2)
			reg := nasTestpacket.GetRegistrationRequest(1, *suci, nil, &nasType.UESecurityCapability{Iei: 0x2e, Len: 2, Buffer: []byte{0x80 >> uint(ue%3), 0x20}}, nil, nil, nil)
			ul := nasTestpacket.GetUlNasTransport_PduSessionEstablishmentRequest(uint8(1+ue), 1, "internet", &models.Snssai{Sst: int32(1 + ue), Sd: "010203"})
			smc := nasTestpacket.GetSecurityModeComplete(reg)
			// reg and ul are looked at after the later constructor calls
			return fmt.Sprintf("%x %x %x", reg, ul, smc)
		}},
		{"NGAP builders", func(ue int) string {
			a, e1 := tglib.GetInitialContextSetupResponse(int64(100+ue), int64(ue+1))
			b, e2 := tglib.GetUEContextReleaseComplete(int64(100+ue), int64(ue+1), []int64{int64(1 + ue)})
			c, e3 := tglib.GetPDUSessionResourceReleaseResponse(int64(100+ue), int64(ue+1), int64(1+ue))
			return fmt.Sprintf("%x %x %x %v %v %v", a, b, c, e1, e2, e3)
		}},
		{"DeriveRESstarAndSetKey(OP only, one operator OP, own K)", func(ue int) string {
			// the realistic provisioning: every UE of an operator has the same OP and its own K (OPc depends on both)
			u := tglib.NewRanUeContext(fmt.Sprintf("imsi-00101000000002%d", ue), int64(ue), 2, 2)
			k, op := c20key(ue, 21), c20key(0, 22)
			subs := tglib.GetAuthSubscription(fmt.Sprintf("%x", k), "", fmt.Sprintf("%x", op))
			var autn [16]byte
			autn[3] = byte(ue + 1)
			rand := c20key(ue, 23)
			res := u.DeriveRESstarAndSetKey(subs, autn, rand[:], "5G:mnc001.mcc001.3gppnetwork.org", "01", "001")
			return fmt.Sprintf("%x %x %x %x", res, u.Kamf, u.KnasEnc, u.KnasInt)
		}},
		{"DeriveRESstarAndSetKey(OP only, operator record shared)", func(ue int) string {
			// per-UE copies of one operator record: the structs are copied, the OP/OPc objects behind them are the operator's
			u := tglib.NewRanUeContext(fmt.Sprintf("imsi-00101000000003%d", ue), int64(ue), 2, 2)
			subs := c20operatorRecord
			k := c20key(ue, 26)
			subs.PermanentKey = &models.PermanentKey{PermanentKeyValue: fmt.Sprintf("%x", k)}
			var autn [16]byte
			autn[2] = byte(ue + 1)
			rand := c20key(ue, 27)
			res := u.DeriveRESstarAndSetKey(subs, autn, rand[:], "5G:mnc001.mcc001.3gppnetwork.org", "01", "001")
			return fmt.Sprintf("%x %x %x %x opc=%q", res, u.Kamf, u.KnasEnc, u.KnasInt, c20operatorRecord.Opc.OpcValue)
		}},
		{"NASEncode(NIA0,NEA0) short message", func(ue int) string {
			u := tglib.NewRanUeContext("imsi-001010000000001", int64(ue), 0, 0)
			u.ULCount.Set(0, uint8(ue+3))
			out, err := tglib.EncodeNasPduWithSecurity(u, nasTestpacket.GetStatus5GMM(uint8(0x60+ue)), 1, true, false)
			return fmt.Sprintf("%x %v", out, err)
		}},
		{"GetNasPdu(NIA2,NEA2)", func(ue int) string {
			// the emulator's own entry point for a received DownlinkNASTransport (not NASDecode directly)
			u := tglib.NewRanUeContext("imsi-001010000000001", int64(ue), 2, 2)
			u.KnasInt, u.KnasEnc = c20key(ue, 24), c20key(ue, 25)
			u.DLCount.Set(0, uint8(ue+5))
			plain := []byte{0x7e, 0x00, 0x54, 0x01, byte(ue)}
			wire := refnas.Protect(plain, 2, refnas.SecCtx{NIA: 2, NEA: 2, KInt: u.KnasInt, KEnc: u.KnasEnc}, uint32(ue+6), refnas.DirDownlink)
			var dl ngapType.DownlinkNASTransport
			ie := ngapType.DownlinkNASTransportIEs{}
			ie.Id.Value = ngapType.ProtocolIEIDNASPDU
			ie.Value.Present = ngapType.DownlinkNASTransportIEsPresentNASPDU
			ie.Value.NASPDU = &ngapType.NASPDU{Value: wire}
			dl.ProtocolIEs.List = append(dl.ProtocolIEs.List, ie)
			m := tglib.GetNasPdu(u, &dl)
			if m == nil {
				return "nil"
			}
			re, err := m.PlainNasEncode()
			return fmt.Sprintf("%x %v %d", re, err, u.DLCount.Get())
		}},
		// two UEs that happen to hold the same key (state kept per key is then the same object for both), own messages and COUNTs
		{"NIA2(key equal for all UEs)", func(ue int) string {
			m, err := security.NASMacCalculate(security.AlgIntegrity128NIA2, c20key(0, 9), uint32(ue+1), 1, uint8(ue&1), msg(ue, 25+ue))
			return fmt.Sprintf("%x %v", m, err)
		}},
		{"NEA2(key equal for all UEs)", func(ue int) string {
			p := msg(ue, 33+ue)
			err := security.NASEncrypt(security.AlgCiphering128NEA2, c20key(0, 9), uint32(ue+1), 1, uint8(ue&1), p)
			return fmt.Sprintf("%x %v", p, err)
		}},
		{"NGAP refused encode", func(ue int) string {
			// an AMF-UE-NGAP-ID below the type's lower bound: the encoder must refuse (what it says is not compared)
			_, err := tglib.GetUplinkNASTransport(-1, int64(ue+1), msg(ue, 7))
			return fmt.Sprint(err != nil)
		}},
	}
}

func c20protect(ue int, nia, nea uint8) string {
	u := tglib.NewRanUeContext("imsi-001010000000001", int64(ue), nea, nia)
	u.KnasInt, u.KnasEnc = c20key(ue, 8), c20key(ue, 9)
	u.ULCount.Set(0, uint8(ue+3))
	plain := nasTestpacket.GetRegistrationComplete(nil)
	out, err := tglib.EncodeNasPduWithSecurity(u, plain, 2, true, false)
	if err != nil {
		return err.Error()
	}
	got, _, _, uerr := refnas.Unprotect(out, refnas.SecCtx{NIA: int(nia), NEA: int(nea), KInt: u.KnasInt, KEnc: u.KnasEnc}, uint32(ue+3), refnas.DirUplink)
	return fmt.Sprintf("%x %x %v", out, got, uerr)
}

func c20unprotect(ue int, nia, nea uint8) string {
	u := tglib.NewRanUeContext("imsi-001010000000001", int64(ue), nea, nia)
	u.KnasInt, u.KnasEnc = c20key(ue, 10), c20key(ue, 11)
	u.DLCount.Set(0, uint8(ue+5))
	plain := []byte{0x7e, 0x00, 0x54}
	wire := refnas.Protect(plain, 2, refnas.SecCtx{NIA: int(nia), NEA: int(nea), KInt: u.KnasInt, KEnc: u.KnasEnc}, uint32(ue+6), refnas.DirDownlink)
	m, err := tglib.NASDecode(u, 2, wire)
	if err != nil {
		return err.Error()
	}
	re, err := m.PlainNasEncode()
	return fmt.Sprintf("%x %v %d", re, err, u.DLCount.Get())
}

// c20reference: digests that do not depend on the library at all, for the operations that have a reference.
func c20reference(name string, ue int) (string, bool) {
	msg := func(ue, n int) []byte { return pattern(3+ue, n) }
	switch name {
	case "NEA1":
		p := msg(ue, 5)
		ks := refcrypto.NEAKeystream(1, c20key(ue, 1), uint32(ue+1), 1, 0, 5)
		for i := range p {
			p[i] ^= ks[i]
		}
		return fmt.Sprintf("%x", p), true
	case "NIA1":
		m := refcrypto.NIA(1, c20key(ue, 2), uint32(ue+1), 1, 1, msg(ue, 9))
		return fmt.Sprintf("%x <nil>", m[:]), true
	}
	return "", false
}
