package props

import (
	"fmt"
	"os"
	"reflect"
	"regexp"
	"strconv"
	"strings"
	"time"

	"mc/explore"
	"mc/n2"
	"mc/refamf"
	"mc/report"
	"stgutg"
)

func init() { register("C18", "exploration", runC18) }

type c18key struct {
	yaml  string // documented key
	field string // field of stgutg.Conf.Configuration
	kind  string // string | int | uint64 | int32
	alts  []c18val
}

type c18val struct {
	text string      // text after "key: " in the file
	want interface{} // typed value the procedures must receive
}

func sv(text, want string) c18val     { return c18val{text, want} }
func iv(text string, want int) c18val { return c18val{text, want} }

func c18keys() []c18key {
	q := func(s string) string { return `"` + s + `"` }
	ipAlts := func(def string) []c18val {
		return []c18val{sv(def, def), sv(q(def), def), sv("10.0.0.1", "10.0.0.1"), sv(q(""), ""), sv("'255.255.255.255'", "255.255.255.255"), sv("amf.example.org", "amf.example.org"),
			// address literals that are not in the form a library would print them in: they are text and stay as written
			sv(q("FD00:61::4"), "FD00:61::4"), sv(q("fd00:61:0:0:0:0:0:4"), "fd00:61:0:0:0:0:0:4"), sv(q("::ffff:192.168.61.3"), "::ffff:192.168.61.3"), sv(q("010.001.000.007"), "010.001.000.007")}
	}
	portAlts := func(def int) []c18val {
		return []c18val{iv(fmt.Sprint(def), def), iv("0", 0), iv("65535", 65535), iv("38412 #48412", 38412), iv("2147483647", 2147483647), iv("-1", -1)}
	}
	cnt := func(def int) []c18val {
		return []c18val{iv(fmt.Sprint(def), def), iv("0", 0), iv("1", 1), iv("2147483647", 2147483647), iv("-5", -5), iv("007", 7), iv("9007199254740993", 9007199254740993), iv("9223372036854775807", 9223372036854775807)}
	}
	hexAlts := func(def string) []c18val {
		return []c18val{sv(q(def), def), sv(q(strings.ToLower(def)), strings.ToLower(def)), sv(q("00000000000000000000000000000000"), "00000000000000000000000000000000"), sv(q(""), ""), sv("'"+def+"'", def), sv("ABCDEFABCDEFABCDEFABCDEFABCDEFAB", "ABCDEFABCDEFABCDEFABCDEFABCDEFAB")}
	}
	return []c18key{
		{"amf_ngap_ip", "AmfNgapIP", "string", ipAlts("192.168.61.4")},
		{"amf_ngap_port", "AmfNgapPort", "int", portAlts(38412)},
		{"gnb_gtp_ip", "Gnb_gtp", "string", ipAlts("192.168.61.3")},
		{"stg_ngap_ip", "StgNgapIP", "string", ipAlts("192.168.61.3")},
		{"stg_ngap_port", "StgNgapPort", "int", portAlts(9487)},
		{"gnb_id", "Gnb_id", "string", []c18val{sv(`"\x00\x01\x02"`, "\x00\x01\x02"), sv(`"\x7f\x00\x7e\x01"`, "\x7f\x00\x7e\x01"), sv(`"abc"`, "abc"), sv(`"é\x01"`, "é\x01"), sv(`"\t\n\\\""`, "\t\n\\\""), sv(`""`, ""), sv(`"\0\x01\x02"`, "\x00\x01\x02"), sv(`"\x20\x01\x20"`, "\x20\x01\x20"), sv(`"\x09\x01\x0d"`, "\x09\x01\x0d")}},
		{"gnb_bitlength", "Gnb_bitlength", "uint64", []c18val{{"24", uint64(24)}, {"22", uint64(22)}, {"32", uint64(32)}, {"0", uint64(0)}, {"27", uint64(27)}}},
		{"gnb_name", "Gnb_name", "string", []c18val{sv(`"open5gs"`, "open5gs"), sv("gnb-1", "gnb-1"), sv(`""`, ""), sv(`"name with spaces"`, "name with spaces"), sv(`"`+strings.Repeat("x", 150)+`"`, strings.Repeat("x", 150)), sv(`'single #quoted'`, "single #quoted"), sv(`" gnb 7 "`, " gnb 7 "), sv(`"$HOME-gnb"`, "$HOME-gnb"), sv(`"${PATH}x"`, "${PATH}x"), sv(`"a${}b$$c"`, "a${}b$$c"), sv(`"%s %d {{.}}"`, "%s %d {{.}}")}},
		{"initial_imsi", "Initial_imsi", "string", []c18val{sv(`"001010000000001"`, "001010000000001"), sv(`"999990123456789"`, "999990123456789"), sv(`"00101000000001"`, "00101000000001"), sv(`'000000000000000'`, "000000000000000"), sv(`""`, ""),
			// plain (unquoted) scalars that look like numbers stay the text that was written
			sv("001010000000001", "001010000000001"), sv("208930000000003", "208930000000003"), sv("00101000000001", "00101000000001")}},
		{"mcc", "Mcc", "string", []c18val{sv(`"001"`, "001"), sv(`"999"`, "999"), sv(`'000'`, "000"), sv(`"208"`, "208"), sv("001", "001"), sv("208", "208"), sv("010", "010")}},
		{"mnc", "Mnc", "string", []c18val{sv(`"01"`, "01"), sv(`"001"`, "001"), sv(`"99"`, "99"), sv(`'00'`, "00"), sv(`"410"`, "410"), sv("01", "01"), sv("08", "08"), sv("93", "93"), sv("001", "001")}},
		{"k", "K", "string", hexAlts("465B5CE8B199B49FAA5F0A2EE238A6BC")},
		{"opc", "OPC", "string", hexAlts("E8ED289DEBA952E4283B54E88E6183CA")},
		{"op", "OP", "string", hexAlts("E8ED289DEBA952E4283B54E88E6183CA")},
		{"sst", "SST", "int32", []c18val{{"1", int32(1)}, {"0", int32(0)}, {"255", int32(255)}, {"2147483647", int32(2147483647)}, {"-1", int32(-1)}}},
		{"sd", "SD", "string", []c18val{sv(`"010203"`, "010203"), sv(`"000001"`, "000001"), sv(`""`, ""), sv(`"ffffff"`, "ffffff"), sv(`'000000'`, "000000"), sv(`"ABCDEF"`, "ABCDEF"), sv(`"00007b"`, "00007b"), sv(`"0a0B0c"`, "0a0B0c"), sv("010203", "010203"), sv("000001", "000001"), sv("123456", "123456"), sv("0e1234", "0e1234"), sv("0x1234", "0x1234")}},
		{"downlink_iface", "DLIface", "string", []c18val{sv(`"enp0s8"`, "enp0s8"), sv("eth0", "eth0"), sv(`""`, ""), sv(`"lo"`, "lo"), sv(`"$USER"`, "$USER"), sv(`"if${HOME}"`, "if${HOME}")}},
		{"uplink_iface", "ULIface", "string", []c18val{sv(`"enp0s9"`, "enp0s9"), sv("eth1", "eth1"), sv(`""`, ""), sv(`"lo"`, "lo")}},
		{"ue_number", "UeNumber", "int", cnt(1)},
		{"ue_registration", "Test_ue_registation", "int", cnt(10)},
		{"ue_pdu", "Test_ue_pdu_establishment", "int", cnt(10)},
		{"ue_service", "Test_ue_service", "int", cnt(10)},
		{"ue_pdu_release", "Test_ue_pdu_release", "int", cnt(10)},
		{"ue_deregistration", "Test_ue_deregistration", "int", cnt(10)},
	}
}

func runC18(ctx *Ctx) {
	r := ctx.R
	codec := getCodec(r)
	if codec == nil {
		return
	}
	keys := c18keys()
	bound := 1
	if ctx.Thorough {
		bound = 2
	}
	// (a) the parsed configuration, key by key (sequential: the working directory is process-global)
	dir, err := os.MkdirTemp(report.BuildDir, "run.")
	if err != nil {
		r.HarnessError(err.Error())
		return
	}
	defer os.RemoveAll(dir)
	old, _ := os.Getwd()
	os.Chdir(dir)
	os.WriteFile("log", nil, 0o644)
	l := r.Local()
	st := explore.Explore(explore.Config{Bound: bound, Workers: 1}, func(c *explore.Chooser, w int) {
		var sb strings.Builder
		sb.WriteString("info:\n  version: 0.9.0\n  description: generated\n\nconfiguration:\n")
		want := map[string]interface{}{}
		order := c.Pick("key-order", 2) // 1: keys written in reverse order
		lines := make([]string, len(keys))
		for i, k := range keys {
			v := k.alts[c.Pick(k.yaml, len(k.alts))]
			lines[i] = fmt.Sprintf("  %s: %s\n", k.yaml, v.text)
			want[k.field] = v.want
		}
		if order == 1 {
			for i := len(lines) - 1; i >= 0; i-- {
				sb.WriteString(lines[i])
			}
		} else {
			for _, ln := range lines {
				sb.WriteString(ln)
			}
		}
		os.WriteFile("config.yaml", []byte(sb.String()), 0o644)
		cs := "config file: " + c.Describe()
		var conf stgutg.Conf
		if perr := recoverErr(func() { conf.GetConfiguration() }); perr != nil {
			r.Violate("config/panic", cs, perr.Error(), c.Picks)
			return
		}
		rv := reflect.ValueOf(conf.Configuration)
		okAll := true
		for _, k := range keys {
			f := rv.FieldByName(k.field)
			if !f.IsValid() {
				r.Violate("config/field-missing/"+k.yaml, cs, "Conf has no field "+k.field, c.Picks)
				continue
			}
			got := f.Interface()
			if !reflect.DeepEqual(got, want[k.field]) {
				okAll = false
				r.Violate("config/value-differs/"+k.yaml, cs, fmt.Sprintf("key %s: procedures receive %#v, the file says %#v", k.yaml, got, want[k.field]), c.Picks)
			}
		}
		l.Case(cs, c.Deviations() > 0, fmt.Sprint(okAll))
	})
	os.Chdir(old)
	l.Merge()
	r.Set("config_file_bound_completed", st.BoundCompleted)
	r.Set("config_file_executions", st.Executions)
	r.Sample("config file: gnb_id=3 (\"\\u00e9\\x01\"), ue_pdu=5 (007)")

	// (b) on the wire: every configured value the AMF can observe, through the closed system
	locals := make([]*report.Local, Workers())
	for i := range locals {
		locals[i] = r.Local()
	}
	stats := newN2stats()
	wire := explore.Explore(explore.Config{Bound: bound, Workers: Workers(), Deadline: time.Now().Add(10 * time.Minute)}, func(c *explore.Chooser, w int) {
		emu, acfg := n2config(c)
		sst := []int{1, 2, 255}[c.Pick("sst", 3)]
		sd := []string{"010203", "000001", "ffffff", "ABCDEF", "00007B", "0a0B0c"}[c.Pick("sd", 6)] // (hexadecimal digits in either case: TS 29.571)
		gtp := []string{"192.168.61.3", "10.0.0.1", "255.255.255.255", "1.2.3.4"}[c.Pick("gnb_gtp_ip", 4)]
		emu.SST, emu.SD, emu.GnbGtpIP = sst, sd, gtp
		acfg.SST, acfg.SD = byte(sst), hx(sd)
		var ip [4]byte
		fmt.Sscanf(gtp, "%d.%d.%d.%d", &ip[0], &ip[1], &ip[2], &ip[3])
		acfg.GnbGtpIP = ip[:]
		v := [5]int{1 + c.Pick("ue_registration", 2), c.Pick("ue_pdu", 3), c.Pick("ue_service", 2), c.Pick("ue_pdu_release", 3), c.Pick("ue_deregistration", 3)}
		v[1] = []int{1, 0, 2}[v[1]]
		emu.Reg, emu.Pdu, emu.Svc, emu.Rel, emu.Dereg = v[0], v[1], v[2], v[3], v[4]
		emu.UeNumber = 1 + c.Pick("ue_number", 2) // traffic-mode key: must not matter in test mode
		a := refamf.New(acfg, refamf.DefaultChoices(), codec)
		res := n2.Run(n2.Opts{YAML: emu.YAML(), AMF: a, Horizon: 60 * time.Second})
		cs := "on the wire: " + c.Describe()
		out := n2judge(r, cs, res, a, func(u *refamf.UE) string { return c02expected(v, u.Index) }, v[0], c.Picks)
		stats.add(a)
		locals[w].Case(cs, c.Deviations() > 0, out)
	})
	for _, lo := range locals {
		lo.Merge()
	}
	r.Set("wire_bound_completed", wire.BoundCompleted)
	r.Set("wire_executions", wire.Executions)
	r.Sample("on the wire: sd=2 (ffffff), gnb_gtp_ip=3 (1.2.3.4): S-NSSAI in UL NAS TRANSPORT and the gNB tunnel address in the setup response must be the configured ones")

	// (c) command line: every argument vector of length 0..3 over the alphabet
	alpha := []string{"-t", "-T", "t", "", "--t", "-t "}
	var argvs [][]string
	argvs = append(argvs, []string{})
	for _, a := range alpha {
		argvs = append(argvs, []string{a})
		for _, b := range alpha {
			argvs = append(argvs, []string{a, b})
			for _, c := range alpha {
				argvs = append(argvs, []string{a, b, c})
			}
		}
	}
	_, acfg := n2config(explore.Replay(nil))
	ParallelFor(r, len(argvs), func(lo *report.Local, i int) {
		args := argvs[i]
		emu := n2.DefaultEmuConfig()
		emu.Reg, emu.Pdu, emu.Svc, emu.Rel, emu.Dereg = 1, 0, 0, 0, 0
		a := refamf.New(acfg, refamf.DefaultChoices(), codec)
		res := n2.Run(n2.Opts{YAML: emu.YAML(), AMF: a, Args: append([]string{}, args...), Horizon: 30 * time.Second})
		cs := fmt.Sprintf("argv[1:]=%q", args)
		lo.Case(cs, true, fmt.Sprint(res.ExitCode, len(res.Up)))
		if res.HarnessErr != "" {
			r.HarnessError(res.HarnessErr)
			return
		}
		if res.Hung {
			r.Violate("argv/hang", cs, "the process did not end", nil)
			return
		}
		test := strings.Contains(res.Stdout, "TEST MODE")
		traffic := strings.Contains(res.Stdout, "TRAFFIC MODE")
		usage := strings.Contains(res.Stdout, "Usage: stg-utg [-t]")
		switch {
		case len(args) == 0:
			// traffic mode is selected; it cannot start in the sandbox (interfaces/XDP): only its selection is observed
			if !traffic || test {
				r.Violate("argv/no-argument-does-not-select-traffic-mode", cs, tail(res.Stdout, 300), nil)
			}
			if len(res.Up) != 0 {
				r.Violate("argv/traffic-mode-sent-before-data-plane-setup", cs, fmt.Sprintf("%d messages reached the AMF although the data plane interfaces do not exist", len(res.Up)), nil)
			}
		case len(args) == 1 && args[0] == "-t":
			if !test || traffic || len(res.Up) == 0 || res.ExitCode != 0 {
				r.Violate("argv/-t-does-not-run-test-mode", cs, fmt.Sprintf("exit %d, %d uplink messages, output %s", res.ExitCode, len(res.Up), tail(res.Stdout, 300)), nil)
			}
		default:
			if test || traffic || len(res.Up) != 0 {
				r.Violate("argv/other-arguments-start-a-procedure", cs, fmt.Sprintf("banner test=%v traffic=%v, %d uplink messages", test, traffic, len(res.Up)), nil)
			}
			if !usage {
				r.Violate("argv/no-usage-message", cs, tail(res.Stdout, 200), nil)
			}
		}
	})
	r.Set("argument_vectors", len(argvs))

	// (d) the five repetition counts at numeric extremes: what main() derives from them is printed in the "Configured
	// tests" banner before anything is sent (the AMF closes instead of answering NG Setup, so nothing is executed):
	// registrations r; sessions min(r,p); service requests and releases min(min(r,p),s|l); deregistrations min(r,d) -
	// in integer arithmetic, for every vector with <=2 (thorough: every vector) components away from 3
	big := []int64{3, 0, 1, 1<<31 - 1, 1 << 31, 1<<53 + 1, 1<<53 + 3, 1<<63 - 1}
	var vecs [][5]int64
	var gen func(pos int, cur [5]int64, dev int)
	gen = func(pos int, cur [5]int64, dev int) {
		if pos == 5 {
			vecs = append(vecs, cur)
			return
		}
		for i, v := range big {
			d := dev
			if i != 0 {
				d++
			}
			if !ctx.Thorough && d > 2 {
				continue
			}
			cur[pos] = v
			gen(pos+1, cur, d)
		}
	}
	gen(0, [5]int64{}, 0)
	min64 := func(a, b int64) int64 {
		if a < b {
			return a
		}
		return b
	}
	ParallelFor(r, len(vecs), func(lo *report.Local, i int) {
		v := vecs[i]
		emu := n2.DefaultEmuConfig()
		y := emu.YAML()
		for k, key := range []string{"ue_registration", "ue_pdu", "ue_service", "ue_pdu_release", "ue_deregistration"} {
			y = regexp.MustCompile(`(?m)^(\s*`+key+`\s*:).*$`).ReplaceAllString(y, fmt.Sprintf("${1} %d", v[k]))
		}
		a := refamf.New(acfg, refamf.DefaultChoices(), codec)
		res := n2.Run(n2.Opts{YAML: y, AMF: a, Fault: &n2.Fault{K: 1, Kind: "close"}, Horizon: 30 * time.Second})
		cs := fmt.Sprintf("counts(reg,pdu,svc,rel,dereg)=%v: banner", v)
		lo.Case(cs, true, "")
		if res.HarnessErr != "" {
			r.HarnessError(res.HarnessErr)
			return
		}
		pdu := min64(v[0], v[1])
		want := map[string]int64{"Registering UEs:": v[0], "PDU sessions to establish:": pdu, "Services to request:": min64(pdu, v[2]), "PDU sessions to release:": min64(pdu, v[3]), "Deregistering UEs:": min64(v[0], v[4])}
		for label, w := range want {
			m := regexp.MustCompile(regexp.QuoteMeta("> "+label) + `\s*(-?\d+)`).FindStringSubmatch(res.Stdout)
			if m == nil {
				r.Violate("counts/banner-line-missing", cs, label+" not in: "+tail(res.Stdout, 400), nil)
				continue
			}
			if got, _ := strconv.ParseInt(m[1], 10, 64); got != w {
				r.Violate("counts/derived-count-wrong/"+strings.TrimSuffix(label, ":"), cs, fmt.Sprintf("banner says %s %s, configured counts give %d", label, m[1], w), nil)
			}
		}
	})
	r.Set("count_vectors_at_numeric_extremes", len(vecs))
	r.Sample(`argv[1:]=["-t" ""] -> usage, no message reaches the AMF`)
	r.Rule = fmt.Sprintf("(a) configuration files generated from typed values: for each of the 24 documented keys an alphabet (quoted/single-quoted/plain strings, \\x, \\u, \\0, \\t escapes in gnb_id, empty strings, leading zeros, comments after a value, ints 0/1/2^31-1/negative/leading zeros, both key orders): every file with <=%d deviations from the shipped values; GetConfiguration field by field == the typed values; "+
		"(b) on the wire through the closed system (reference AMF): <=%d deviations over IMSI/PLMN shape, K/OP/OPc form, gNB id/length/name, sst, sd, gnb_gtp_ip, the five repetition counts and ue_number; (c) every argument vector of length 0..3 over {-t,-T,t,\"\",--t,\"-t \"} at process level: banner, usage, and number of messages reaching the AMF; non-trivial = at least one deviation / every argv", bound, bound)
	r.Assume("expected values follow YAML 1.1 scalar rules as documented for quoted scalars; unquoted numeric text in string-typed keys is not part of the alphabet (ambiguous between YAML int and string)",
		"traffic mode itself cannot start in the sandbox (no XDP, no such interfaces): only its selection and that nothing is sent before the data-plane setup are observed")
}
