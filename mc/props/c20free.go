package props

import (
	"fmt"
	"sync"
)

// C20FreeRun runs the operation bodies on g free-running goroutines (each with its own UE index), rounds times,
// and returns the outputs that differ from the sequential run.
func C20FreeRun(g, rounds int) []string {
	ops := c20ops()
	seq := map[string]string{}
	for _, o := range ops {
		for ue := 0; ue < g; ue++ {
			seq[fmt.Sprint(o.name, ue)] = o.run(ue)
		}
	}
	var mu sync.Mutex
	var mism []string
	for r := 0; r < rounds; r++ {
		var wg sync.WaitGroup
		start := make(chan struct{})
		for t := 0; t < g; t++ {
			wg.Add(1)
			go func(t int) {
				defer wg.Done()
				<-start
				o := ops[(t+r)%len(ops)]
				if got := o.run(t); got != seq[fmt.Sprint(o.name, t)] {
					mu.Lock()
					if len(mism) < 5 {
						mism = append(mism, fmt.Sprintf("round %d goroutine %d %s: %s, alone %s", r, t, o.name, got, seq[fmt.Sprint(o.name, t)]))
					}
					mu.Unlock()
				}
			}(t)
		}
		close(start)
		wg.Wait()
	}
	return mism
}
