package props

import (
	"strings"
	"fmt"
	"sync"
)

// C20FreeRun runs the operation bodies on g free-running goroutines (each with its own UE index), rounds times,
// and returns the outputs that differ from the sequential run.
func C20FreeRun(g, rounds int) []string {
	ops := append(c20ops(), c20long()...)
	// a first concurrent round before anything was used in this process (lazily built state is then built concurrently);
	// its outputs are compared once the sequential ones are known
	cold := make([]string, g)
	{
		var wg sync.WaitGroup
		start := make(chan struct{})
		for t := 0; t < g; t++ {
			wg.Add(1)
			go func(t int) {
				defer wg.Done()
				<-start
				cold[t] = ops[t%len(ops)].run(t)
			}(t)
		}
		close(start)
		wg.Wait()
	}
	seq := map[string]string{}
	for _, o := range ops {
		for ue := 0; ue < g; ue++ {
			seq[fmt.Sprint(o.name, ue)] = o.run(ue)
		}
	}
	var mu sync.Mutex
	var mism []string
	for t := 0; t < g; t++ {
		if o := ops[t%len(ops)]; cold[t] != seq[fmt.Sprint(o.name, t)] {
			mism = append(mism, fmt.Sprintf("first (cold) round goroutine %d %s: %s, alone %s", t, o.name, cold[t], seq[fmt.Sprint(o.name, t)]))
		}
	}
	for r := 0; r < rounds; r++ {
		var wg sync.WaitGroup
		start := make(chan struct{})
		for t := 0; t < g; t++ {
			wg.Add(1)
			go func(t int) {
				defer wg.Done()
				<-start
				o := ops[(t+r)%len(ops)]
				if r%2 == 0 {
					o = ops[(r/2)%len(ops)] // every other round: all goroutines in the same operation, each on its own UE
				}
				if got := o.run(t); got != seq[fmt.Sprint(o.name, t)] {
					mu.Lock()
					if len(mism) < 5 {
						mism = append(mism, fmt.Sprintf("round %d goroutine %d %s: %s, alone %s", r, t, o.name, got, seq[fmt.Sprint(o.name, t)]))
					}
					mu.Unlock()
				}
			}(t)
		}
		close(start)
		wg.Wait()
	}
	return mism
}


// C20FreeRunCold: the very first use of the library in this process is operation number op, by g goroutines at once (each
// on its own UE); afterwards the same operation is run alone for every UE and the outputs are compared. Lazily built
// state (a table, a cache of type descriptions) is then built while g callers need it.
func C20FreeRunCold(g, op int) []string {
	ops := append(c20ops(), c20long()...)
	if op >= len(ops) {
		return nil
	}
	o := ops[op]
	cold := make([]string, g)
	var wg sync.WaitGroup
	start := make(chan struct{})
	for t := 0; t < g; t++ {
		wg.Add(1)
		go func(t int) {
			defer wg.Done()
			<-start
			cold[t] = o.run(t)
		}(t)
	}
	close(start)
	wg.Wait()
	var mism []string
	for t := 0; t < g; t++ {
		if alone := o.run(t); alone != cold[t] {
			mism = append(mism, fmt.Sprintf("cold pass, %d goroutines all in %s: goroutine %d got %s, alone %s", g, o.name, t, cold[t], alone))
		}
	}
	return mism
}

// C20OpCount: number of operations the free-running passes know.
func C20OpCount() int { return len(c20ops()) + len(c20long()) }

// C20IsSequence: operation number op is a two-operation sequence (its parts have cold passes of their own).
func C20IsSequence(op int) bool {
	ops := append(c20ops(), c20long()...)
	return op < len(ops) && strings.Contains(ops[op].name, " ; ")
}
