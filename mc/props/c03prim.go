package props

import (
	"bytes"
	"fmt"
	"hash/fnv"
	"reflect"
	"sort"

	"free5gclib/aper"
	"free5gclib/ngap"
	"free5gclib/ngap/ngapType"
	"mc/refper"
	"mc/report"
)

func trunc(s string, n int) string {
	if len(s) > n {
		return s[:n] + "…"
	}
	return s
}

type primCase struct {
	typ    string // schema type of V: #int #octets #bits #enum []#int
	tag    string
	val    *refper.Node
	offset int  // bits of padding in front (alignment state)
	neg    bool // value violates the constraint: must be refused
	// outsideRoot: value outside the root of an extensible constraint: refusing is allowed, a wrong encoding is not
	outsideRoot bool
	class       string
}

func (p primCase) String() string {
	return fmt.Sprintf("prim %s `%s` offset=%d value=%s neg=%v", p.typ, p.tag, p.offset, trunc(p.val.String(), 80), p.neg)
}

var goPrim = map[string]reflect.Type{
	"#int": reflect.TypeOf(int64(0)), "#octets": reflect.TypeOf(aper.OctetString{}), "#bits": reflect.TypeOf(aper.BitString{}),
	"#enum": reflect.TypeOf(aper.Enumerated(0)), "[]#int": reflect.TypeOf([]int64{}), "#string": reflect.TypeOf(""),
}

func primRun(r *report.Report, l *report.Local, prop string, pc primCase) {
	fields := []reflect.StructField{}
	sfields := []refper.FieldDef{}
	node := &refper.Node{Kind: "seq"}
	if pc.offset > 0 {
		tag := fmt.Sprintf("sizeLB:%d,sizeUB:%d", pc.offset, pc.offset)
		fields = append(fields, reflect.StructField{Name: "Pad", Type: goPrim["#bits"], Tag: reflect.StructTag(`aper:"` + tag + `"`)})
		sfields = append(sfields, refper.FieldDef{Name: "Pad", Type: "#bits", Tag: tag})
		node.Names = append(node.Names, "Pad")
		node.Kids = append(node.Kids, refper.Bits([]byte{0xff << uint(8-pc.offset)}, uint64(pc.offset)))
	}
	fields = append(fields, reflect.StructField{Name: "V", Type: goPrim[pc.typ], Tag: reflect.StructTag(`aper:"` + pc.tag + `"`)})
	sfields = append(sfields, refper.FieldDef{Name: "V", Type: pc.typ, Tag: pc.tag})
	// trailing marker so that a wrong length of V shows in the bytes
	fields = append(fields, reflect.StructField{Name: "End", Type: goPrim["#int"], Tag: `aper:"valueLB:0,valueUB:255"`})
	sfields = append(sfields, refper.FieldDef{Name: "End", Type: "#int", Tag: "valueLB:0,valueUB:255"})
	node.Names = append(node.Names, "V", "End")
	node.Kids = append(node.Kids, pc.val, refper.Int(0xa5))
	st := reflect.StructOf(fields)
	s := &refper.Schema{Types: map[string]*refper.TypeDef{"P": {Kind: "seq", Fields: sfields}}}
	codec := &refper.Codec{S: s}
	v := reflect.New(st)
	setPrim := func(dst reflect.Value, n *refper.Node, typ string) {
		switch typ {
		case "#int":
			dst.SetInt(n.I)
		case "#enum":
			dst.SetUint(uint64(n.I))
		case "#octets":
			dst.Set(reflect.ValueOf(aper.OctetString(append([]byte{}, n.B...))))
		case "#string":
			dst.SetString(string(n.B))
		case "#bits":
			dst.Set(reflect.ValueOf(aper.BitString{Bytes: append([]byte{}, n.B...), BitLength: n.NBits}))
		case "[]#int":
			sl := make([]int64, len(n.Kids))
			for i, k := range n.Kids {
				sl[i] = k.I
			}
			dst.Set(reflect.ValueOf(sl))
		}
	}
	if pc.offset > 0 {
		setPrim(v.Elem().FieldByName("Pad"), node.Kids[0], "#bits")
	}
	setPrim(v.Elem().FieldByName("V"), pc.val, pc.typ)
	v.Elem().FieldByName("End").SetInt(0xa5)
	cs := pc.String()
	var libB []byte
	var libErr error
	perr := recoverErr(func() { libB, libErr = aper.Marshal(v.Elem().Interface()) })
	refB, refErr := codec.Encode("P", "", node)
	l.Case(cs, true, fmt.Sprintf("%x", refB))
	if pc.neg {
		if refErr == nil {
			r.HarnessError("reference accepts a negative case: " + cs)
			return
		}
		if prop == "C03" {
			if perr != nil {
				r.Violate("refuse/panic/"+pc.class, cs, perr.Error(), nil)
			} else if libErr == nil {
				r.Violate("refuse/encoded-out-of-constraint-value/"+pc.class, cs, fmt.Sprintf("encoded to %s", shortHex(libB)), nil)
			}
		}
		return
	}
	if refErr != nil {
		r.HarnessError("reference refuses a positive case: " + cs + ": " + refErr.Error())
		return
	}
	if prop == "C03" {
		switch {
		case perr != nil:
			r.Violate("encode/panic/"+pc.class, cs, perr.Error(), nil)
		case libErr != nil:
			if !pc.outsideRoot {
				r.Violate("encode/refused-valid-value/"+pc.class, cs, libErr.Error(), nil)
			}
		case !bytes.Equal(libB, refB):
			r.Violate("encode/bytes-differ/"+pc.class, cs, fmt.Sprintf("library %s reference %s", shortHex(libB), shortHex(refB)), nil)
		case pc.typ == "#bits" && pc.val.NBits > 0:
			// the same value handed over in a buffer that is longer than the bit length needs, with the bits beyond the
			// length set (a caller's 4-octet buffer for a 22-bit gNB id): those bits are not part of the value
			bs := append([]byte{}, pc.val.B...)
			if rem := pc.val.NBits % 8; rem != 0 && len(bs) > 0 {
				bs[len(bs)-1] |= 0xff >> rem
			}
			bs = append(bs, 0xff, 0x5a)
			v.Elem().FieldByName("V").Set(reflect.ValueOf(aper.BitString{Bytes: bs, BitLength: pc.val.NBits}))
			var b2 []byte
			var e2 error
			if p2 := recoverErr(func() { b2, e2 = aper.Marshal(v.Elem().Interface()) }); p2 != nil || e2 != nil || !bytes.Equal(b2, refB) {
				r.Violate("encode/bytes-differ/over-long-buffer/"+pc.class, cs+" [value in an over-long buffer with the surplus bits set]", fmt.Sprintf("library %s (%v %v) reference %s", shortHex(b2), p2, e2, shortHex(refB)), nil)
			}
		}
		return
	}
	if pc.outsideRoot {
		return
	}
	// C04: the reference encoding decodes to the value and re-encodes identically
	back := reflect.New(st)
	var derr error
	if dp := recoverErr(func() { derr = aper.Unmarshal(refB, back.Interface()) }); dp != nil {
		r.Violate("canonical/decode-panic/"+pc.class, cs, dp.Error(), nil)
		return
	}
	if derr != nil {
		r.Violate("canonical/rejected/"+pc.class, cs, derr.Error()+" on "+shortHex(refB), nil)
		return
	}
	if !primEqual(back.Elem().FieldByName("V"), v.Elem().FieldByName("V")) || back.Elem().FieldByName("End").Int() != 0xa5 {
		r.Violate("canonical/value-differs/"+pc.class, cs, fmt.Sprintf("decoded %v from %s", back.Elem().FieldByName("V").Interface(), shortHex(refB)), nil)
		return
	}
	var re []byte
	var rerr error
	if rp := recoverErr(func() { re, rerr = aper.Marshal(back.Elem().Interface()) }); rp != nil || rerr != nil || !bytes.Equal(re, refB) {
		r.Violate("canonical/reencode-differs/"+pc.class, cs, fmt.Sprintf("%v %v %s vs %s", rp, rerr, shortHex(re), shortHex(refB)), nil)
	}
}

func primEqual(a, b reflect.Value) bool {
	switch a.Kind() {
	case reflect.Int64:
		return a.Int() == b.Int()
	case reflect.Uint64:
		return a.Uint() == b.Uint()
	case reflect.String:
		return a.String() == b.String()
	case reflect.Slice:
		if a.Type().Elem().Kind() == reflect.Uint8 {
			return bytes.Equal(a.Bytes(), b.Bytes())
		}
		if a.Len() != b.Len() {
			return false
		}
		for i := 0; i < a.Len(); i++ {
			if a.Index(i).Int() != b.Index(i).Int() {
				return false
			}
		}
		return true
	case reflect.Struct:
		x, y := a.Interface().(aper.BitString), b.Interface().(aper.BitString)
		return x.BitLength == y.BitLength && bytes.Equal(x.Bytes, y.Bytes)
	}
	return false
}

func ngapPrimitiveSweep(ctx *Ctx, prop string) {
	r := ctx.R
	var cases []primCase
	add := func(pc primCase) {
		for off := 0; off < 8; off++ {
			pc.offset = off
			cases = append(cases, pc)
		}
	}
	// INTEGER
	var ranges []int64
	for k := int64(1); k <= 257; k++ {
		ranges = append(ranges, k)
	}
	ranges = append(ranges, 65535, 65536, 65537, 131072, 1<<24, 1<<24+1, 1<<32, 1<<40, 4000000000001)
	for _, rg := range ranges {
		for _, lb := range []int64{0, 1, -3} {
			if rg > 257 && lb != 0 {
				continue
			}
			ub := lb + rg - 1
			for _, ext := range []bool{false, true} {
				if ext && rg > 4 && rg < 255 {
					continue
				}
				tag := fmt.Sprintf("valueLB:%d,valueUB:%d", lb, ub)
				if ext {
					tag = "valueExt," + tag
				}
				vals := map[int64]bool{lb: true, ub: true, lb + 1: true, ub - 1: true, lb + rg/2: true}
				for _, k := range []uint{7, 8, 15, 16, 23, 24, 31, 32, 39, 40} {
					vals[lb+1<<k-1] = true
					vals[lb+1<<k] = true
				}
				cl := fmt.Sprintf("INTEGER/range=%s/ext=%v", rangeClass(rg), ext)
				for _, v := range sortedI64(vals) {
					if v >= lb && v <= ub {
						add(primCase{typ: "#int", tag: tag, val: refper.Int(v), class: cl})
					}
				}
				if ext {
					for _, v := range []int64{ub + 1, lb - 1, ub + 300, -200, 1 << 33} {
						if v < lb || v > ub {
							add(primCase{typ: "#int", tag: tag, val: refper.Int(v), class: cl + "/extension-value", outsideRoot: true})
						}
					}
				} else {
					add(primCase{typ: "#int", tag: tag, val: refper.Int(ub + 1), neg: true, class: "INTEGER/above-ub"})
					add(primCase{typ: "#int", tag: tag, val: refper.Int(lb - 1), neg: true, class: "INTEGER/below-lb"})
				}
			}
		}
	}
	for _, v := range []int64{0, 1, -1, 127, 128, -128, -129, 255, 256, 32767, 32768, -32768, -32769, 1 << 23, 1<<31 - 1, 1 << 31, -(1 << 31), 1 << 40} {
		add(primCase{typ: "#int", tag: "", val: refper.Int(v), class: "INTEGER/unconstrained"})
	}
	// ENUMERATED
	for _, ub := range []int64{0, 1, 2, 3, 4, 7, 8, 15, 16, 254, 255} {
		for _, ext := range []bool{false, true} {
			tag := fmt.Sprintf("valueLB:0,valueUB:%d", ub)
			if ext {
				tag = "valueExt," + tag
			}
			for v := int64(0); v <= ub; v++ {
				if ub > 16 && v > 2 && v < ub-1 {
					continue
				}
				add(primCase{typ: "#enum", tag: tag, val: refper.Enum(v), class: "ENUMERATED"})
			}
			add(primCase{typ: "#enum", tag: tag, val: refper.Enum(ub + 1), neg: true, class: "ENUMERATED/above-root"})
		}
	}
	// OCTET STRING / BIT STRING
	type sz struct {
		lb, ub int64
		ext    bool
	}
	ostr := []sz{{1, 1, false}, {2, 2, false}, {3, 3, false}, {4, 4, false}, {8, 8, false}, {1, 3, false}, {3, 8, false}, {1, 150, true}, {1, 256, false}, {1, 257, false}, {1, 65535, false}, {1, 65536, false}, {2, 65537, false}, {0, -1, false}, {4, 4, true}, {0, 70000, false}}
	for _, z := range ostr {
		tag := fmt.Sprintf("sizeLB:%d", z.lb)
		if z.ub >= 0 {
			tag += fmt.Sprintf(",sizeUB:%d", z.ub)
		} else {
			tag = ""
		}
		if z.ext {
			tag = "sizeExt," + tag
		}
		hi := z.ub
		if hi < 0 || hi > 16383 {
			hi = 16383
		}
		sizes := map[int64]bool{}
		for _, n := range []int64{z.lb, z.lb + 1, 2, 3, 4, 127, 128, 129, 255, 256, 257, hi - 1, hi} {
			if n >= z.lb && n <= hi && !(n == 0 && z.ub >= 0) {
				sizes[n] = true
			}
		}
		cl := fmt.Sprintf("OCTET-STRING/size(%d..%d)/ext=%v", z.lb, z.ub, z.ext)
		for _, n := range sortedI64(sizes) {
			for c := 0; c < 2; c++ {
				add(primCase{typ: "#octets", tag: tag, val: refper.Octets(pattern(2-c, int(n))), class: cl})
			}
		}
		if z.ub >= 0 && z.ub < 1000 {
			if z.ext {
				add(primCase{typ: "#octets", tag: tag, val: refper.Octets(pattern(2, int(z.ub+1))), class: cl + "/extension-size", outsideRoot: true})
				add(primCase{typ: "#octets", tag: tag, val: refper.Octets(pattern(2, int(z.ub+130))), class: cl + "/extension-size", outsideRoot: true})
			} else {
				add(primCase{typ: "#octets", tag: tag, val: refper.Octets(pattern(2, int(z.ub+1))), neg: true, class: "OCTET-STRING/above-ub"})
			}
			if z.lb > 0 {
				k := "OCTET-STRING/below-lb"
				if z.lb == z.ub {
					k = "OCTET-STRING/wrong-fixed-size"
				}
				if !z.ext {
					add(primCase{typ: "#octets", tag: tag, val: refper.Octets(pattern(2, int(z.lb-1))), neg: true, class: k})
				}
			}
		}
	}
	bstr := []sz{{22, 32, false}, {1, 160, true}, {1, 64, false}, {0, -1, false}, {1, 256, false}, {1, 65535, false}, {1, 65536, false}, {1, 131072, false}}
	for n := int64(1); n <= 40; n++ {
		bstr = append(bstr, sz{n, n, false})
	}
	for _, z := range bstr {
		tag := fmt.Sprintf("sizeLB:%d", z.lb)
		if z.ub >= 0 {
			tag += fmt.Sprintf(",sizeUB:%d", z.ub)
		} else {
			tag = ""
		}
		if z.ext {
			tag = "sizeExt," + tag
		}
		hi := z.ub
		if hi < 0 || hi > 16383 {
			hi = 16383
		}
		sizes := map[int64]bool{}
		for _, n := range []int64{z.lb, z.lb + 1, 7, 8, 9, 15, 16, 17, 24, 25, 127, 128, 129, 255, 256, 257, hi - 1, hi} {
			if n >= z.lb && n <= hi && !(n == 0 && z.ub >= 0) {
				sizes[n] = true
			}
		}
		cl := fmt.Sprintf("BIT-STRING/size(%d..%d)/ext=%v", z.lb, z.ub, z.ext)
		if z.lb == z.ub {
			cl = "BIT-STRING/fixed"
			if z.ub <= 16 {
				cl = "BIT-STRING/fixed<=16"
			}
		}
		mk := func(n int64, c int) *refper.Node {
			b := pattern(c, int((n+7)/8))
			if n%8 != 0 {
				b[len(b)-1] &= 0xff << uint(8-n%8)
			}
			return refper.Bits(b, uint64(n))
		}
		for _, n := range sortedI64(sizes) {
			for c := 1; c <= 2; c++ {
				add(primCase{typ: "#bits", tag: tag, val: mk(n, c), class: cl})
			}
		}
		if z.ub >= 0 && z.ub < 1000 {
			if z.ext {
				add(primCase{typ: "#bits", tag: tag, val: mk(z.ub+1, 1), class: cl + "/extension-size", outsideRoot: true})
			} else {
				k := "BIT-STRING/above-ub"
				if z.lb == z.ub {
					k = "BIT-STRING/wrong-fixed-size"
					if z.ub <= 16 {
						k = "BIT-STRING/wrong-fixed-size<=16"
					}
				}
				add(primCase{typ: "#bits", tag: tag, val: mk(z.ub+1, 1), neg: true, class: k})
				if z.lb > 1 {
					k2 := "BIT-STRING/below-lb"
					if z.lb == z.ub {
						k2 = k
					}
					add(primCase{typ: "#bits", tag: tag, val: mk(z.lb-1, 1), neg: true, class: k2})
				}
			}
		}
	}
	// SEQUENCE OF INTEGER(0..255)
	// (ranges that are and are not powers of two: a count field that can hold ub+1 must still be refused)
	for _, z := range []sz{{1, 8, false}, {1, 256, false}, {0, 3, false}, {1, 1, false}, {2, 2, false}, {1, 16, true}, {1, 65535, false}, {1, 1024, false},
		{1, 12, false}, {0, 16, false}, {0, 4, false}, {1, 5, false}, {1, 100, false}, {1, 255, false}, {3, 9, false}, {1, 2048, false}, {1, 4096, false}, {1, 16384, false}, {0, 65535, false}, {1, 65536, false}, {0, 65536, false}} {
		tag := fmt.Sprintf("sizeLB:%d,sizeUB:%d,valueLB:0,valueUB:255", z.lb, z.ub)
		if z.ext {
			tag = "sizeExt," + tag
		}
		for _, n := range []int64{z.lb, z.lb + 1, 2, 3, 127, 128, 255, 256, z.ub} {
			if n < z.lb || n > z.ub || n > 300 {
				continue
			}
			items := &refper.Node{Kind: "list"}
			for i := int64(0); i < n; i++ {
				items.Kids = append(items.Kids, refper.Int(i%256))
			}
			add(primCase{typ: "[]#int", tag: tag, val: items, class: fmt.Sprintf("SEQUENCE-OF/size(%d..%d)", z.lb, z.ub)})
		}
		if !z.ext {
			for _, over := range []int64{1, 2} {
				items := &refper.Node{Kind: "list"}
				for i := int64(0); i < z.ub+over; i++ {
					items.Kids = append(items.Kids, refper.Int(1))
				}
				add(primCase{typ: "[]#int", tag: tag, val: items, neg: true, class: "SEQUENCE-OF/above-ub"})
			}
			if z.lb > 0 {
				add(primCase{typ: "[]#int", tag: tag, val: &refper.Node{Kind: "list"}, neg: true, class: "SEQUENCE-OF/below-lb"})
			}
		}
	}
	{
		h := fnv.New64a()
		for _, c := range cases {
			h.Write([]byte(c.String()))
		}
		r.Consistent("primitive case list", fmt.Sprintf("%d cases, hash %x", len(cases), h.Sum64()))
	}
	ParallelFor(r, len(cases), func(l *report.Local, i int) { primRun(r, l, prop, cases[i]) })
	r.Set("primitive_cases", len(cases))
	r.Sample(cases[len(cases)/3].String())
	if prop == "C03" {
		ngapNegativeStructural(r)
		ngapFragmentSweep(ctx)
	}
}

func rangeClass(rg int64) string {
	switch {
	case rg == 1:
		return "1"
	case rg <= 255:
		return "2..255"
	case rg == 256:
		return "256"
	case rg <= 65536:
		return "257..64K"
	}
	return fmt.Sprintf("%d", rg)
}

// ngapNegativeStructural: unset CHOICE, Present beyond the alternatives, nil mandatory component,
// open type not matching its identifier: all must be refused with an error.
func ngapNegativeStructural(r *report.Report) {
	l := r.Local()
	try := func(name string, pdu ngapType.NGAPPDU) {
		var b []byte
		var err error
		perr := recoverErr(func() { b, err = ngap.Encoder(pdu) })
		l.Case("negative "+name, true, fmt.Sprint(err != nil))
		if perr != nil {
			r.Violate("refuse/panic/"+name, name, perr.Error(), nil)
		} else if err == nil {
			r.Violate("refuse/encoded-invalid-value/"+name, name, "encoded to "+shortHex(b), nil)
		}
	}
	base := func() ngapType.NGAPPDU {
		var pdu ngapType.NGAPPDU
		pdu.Present = ngapType.NGAPPDUPresentInitiatingMessage
		pdu.InitiatingMessage = new(ngapType.InitiatingMessage)
		pdu.InitiatingMessage.ProcedureCode.Value = ngapType.ProcedureCodeNGSetup
		pdu.InitiatingMessage.Criticality.Value = ngapType.CriticalityPresentReject
		pdu.InitiatingMessage.Value.Present = ngapType.InitiatingMessagePresentNGSetupRequest
		pdu.InitiatingMessage.Value.NGSetupRequest = new(ngapType.NGSetupRequest)
		ie := ngapType.NGSetupRequestIEs{}
		ie.Id.Value = ngapType.ProtocolIEIDGlobalRANNodeID
		ie.Criticality.Value = ngapType.CriticalityPresentReject
		ie.Value.Present = ngapType.NGSetupRequestIEsPresentGlobalRANNodeID
		ie.Value.GlobalRANNodeID = new(ngapType.GlobalRANNodeID)
		g := ie.Value.GlobalRANNodeID
		g.Present = ngapType.GlobalRANNodeIDPresentGlobalGNBID
		g.GlobalGNBID = new(ngapType.GlobalGNBID)
		g.GlobalGNBID.PLMNIdentity.Value = aper.OctetString{0x02, 0xf8, 0x39}
		g.GlobalGNBID.GNBID.Present = ngapType.GNBIDPresentGNBID
		g.GlobalGNBID.GNBID.GNBID = &aper.BitString{Bytes: []byte{1, 2, 3}, BitLength: 24}
		pdu.InitiatingMessage.Value.NGSetupRequest.ProtocolIEs.List = append(pdu.InitiatingMessage.Value.NGSetupRequest.ProtocolIEs.List, ie)
		return pdu
	}
	var bb []byte
	var berr error
	if perr := recoverErr(func() { bb, berr = ngap.Encoder(base()) }); perr != nil || berr != nil || len(bb) == 0 {
		// the positive base must encode, otherwise the negative results mean nothing
		r.Violate("encode/refused-valid-value/negative-base", "NGSetupRequest base", fmt.Sprint(perr, berr), nil)
		l.Merge()
		return
	}
	p := base()
	p.Present = 0
	try("pdu-choice-unset", p)
	p = base()
	p.Present = 4
	try("pdu-choice-present-beyond-alternatives", p)
	p = base()
	p.InitiatingMessage.Value.NGSetupRequest.ProtocolIEs.List[0].Value.GlobalRANNodeID.Present = 0
	try("inner-choice-unset", p)
	p = base()
	p.InitiatingMessage.Value.NGSetupRequest.ProtocolIEs.List[0].Value.GlobalRANNodeID.Present = 9
	try("inner-choice-present-beyond-alternatives", p)
	p = base()
	p.InitiatingMessage.Value.NGSetupRequest.ProtocolIEs.List[0].Value.GlobalRANNodeID.GlobalGNBID = nil
	try("choice-alternative-nil", p)
	p = base()
	p.InitiatingMessage.ProcedureCode.Value = ngapType.ProcedureCodeNGReset
	try("open-type-does-not-match-procedure-code", p)
	p = base()
	p.InitiatingMessage.Value.NGSetupRequest.ProtocolIEs.List[0].Id.Value = ngapType.ProtocolIEIDRANNodeName
	try("open-type-does-not-match-ie-id", p)
	p = base()
	p.InitiatingMessage.Value.Present = 0
	try("open-type-unset", p)
	p = base()
	p.InitiatingMessage.Value.NGSetupRequest.ProtocolIEs.List[0].Value.GlobalRANNodeID.GlobalGNBID.GNBID.GNBID = nil
	try("choice-alternative-nil-bitstring", p)
	p = base()
	p.InitiatingMessage.Value.NGSetupRequest.ProtocolIEs.List[0].Value.GlobalRANNodeID.GlobalGNBID.PLMNIdentity.Value = aper.OctetString{1, 2}
	try("fixed-octet-string-too-short", p)
	p = base()
	p.InitiatingMessage.Value.NGSetupRequest.ProtocolIEs.List[0].Value.GlobalRANNodeID.GlobalGNBID.GNBID.GNBID = &aper.BitString{Bytes: []byte{1, 2, 3}, BitLength: 21}
	try("bit-string-below-lb", p)
	p = base()
	p.InitiatingMessage.Criticality.Value = 3
	try("enumerated-above-root", p)
	l.Merge()
}

// ngapFragmentSweep: lengths of 16384 and more (own finding keys, outside the main claim).
func ngapFragmentSweep(ctx *Ctx) {
	r := ctx.R
	l := r.Local()
	sizes := []int{16384, 16385, 32767, 32768, 49152, 65535, 65536, 65537, 81920}
	if ctx.Thorough {
		sizes = append(sizes, 16383+16384, 98304, 131072, 131073)
	}
	for _, n := range sizes {
		pc := primCase{typ: "#octets", tag: "", val: refper.Octets(pattern(2, n)), class: fmt.Sprintf("fragmented/len%%16384==0:%v", n%16384 == 0)}
		primRun(r, l, "C03", pc)
	}
	l.Merge()
	r.Set("fragmented_lengths", sizes)
}

// sortedI64: the keys of a set in ascending order (case lists must be identical in every shard process; Go's map
// iteration order is not).
func sortedI64(m map[int64]bool) []int64 {
	out := make([]int64, 0, len(m))
	for k := range m {
		out = append(out, k)
	}
	sort.Slice(out, func(i, j int) bool { return out[i] < out[j] })
	return out
}
