package props

import (
	"bytes"
	"fmt"
	"free5gclib/nas"
	"free5gclib/nas/nasType"

	"free5gclib/nas/nasMessage"
	"free5gclib/nas/nasTestpacket"
	"free5gclib/nas/security"
	"free5gclib/openapi/models"
	"mc/refnas"
	"mc/report"
	"tglib"
)

func init() { register("C06", "model_checking", runC06) }

func c06messages() [][]byte {
	sn := models.Snssai{Sst: 1, Sd: "010203"}
	suci := []byte{0x01, 0x00, 0xf1, 0x10, 0xf0, 0xff, 0x00, 0x00, 0x00, 0x00, 0x00, 0x00, 0x10}
	_ = suci
	msgs := [][]byte{
		nasTestpacket.GetRegistrationComplete(nil), // 3 octets
		nasTestpacket.GetServiceRequest(nasMessage.ServiceTypeData),
		nasTestpacket.GetUlNasTransport_PduSessionEstablishmentRequest(1, nasMessage.ULNASTransportRequestTypeInitialRequest, "internet", &sn),
		nasTestpacket.GetAuthenticationResponse(pattern(2, 16), ""),
		nasTestpacket.GetUlNasTransport_PduSessionReleaseRequest(5),
		nasTestpacket.GetSecurityModeComplete(pattern(3, 30)),
		nasTestpacket.GetConfigurationUpdateComplete(),
		nasTestpacket.GetStatus5GMM(0x6f),
		// a bare 5GSM message handed to the same entry point: the security protected message around it is still a 5GMM one (EPD 7e)
		nasTestpacket.GetPduSessionEstablishmentRequest(5),
	}
	// initial NAS messages that carry a NAS message container (TS 24.501 4.4.6): protected like any other message
	{
		suciIE := nasType.MobileIdentity5GS{Len: 13, Buffer: suci}
		msgs = append(msgs, nasTestpacket.GetRegistrationRequest(nasMessage.RegistrationType5GSInitialRegistration, suciIE, nil, nil, nil, pattern(2, 21), nil))
		sr := nasTestpacket.GetServiceRequest(nasMessage.ServiceTypeSignalling)
		msgs = append(msgs, append(append([]byte{}, sr...), append([]byte{0x71, 0x00, 0x0b}, pattern(3, 11)...)...))
	}
	// eight consecutive lengths, so that every residue of the message length (and of SQN||message) mod 4, 8 and 16 occurs
	for n := 0; n < 8; n++ {
		msgs = append(msgs, nasTestpacket.GetSecurityModeComplete(pattern(3, 8+n)))
	}
	return msgs
}

type c06op struct {
	msg    int
	h      uint8
	newCtx bool
}

func runC06(ctx *Ctx) {
	r := ctx.R
	msgs := c06messages()
	algs := [][2]uint8{{2, 0}, {2, 2}, {2, 1}, {1, 0}, {1, 1}, {1, 2}} // (NIA, NEA)
	starts := []uint32{0, 254, 255, 0xfffe, 0xffff, 0xfffffe, 0xffffff}
	var ops []c06op
	for m := 0; m < 4; m++ {
		for h := uint8(1); h <= 4; h++ {
			ops = append(ops, c06op{m, h, false})
		}
	}
	ops = append(ops, c06op{0, 4, true}, c06op{2, 3, true}, c06op{1, 2, true})
	for m := 4; m < len(msgs); m++ {
		ops = append(ops, c06op{m, 2, false})
	}
	// an attempt that fails inside the protected branch (a message type the encoder does not know): nothing is sent, so
	// no COUNT may be consumed and the next message carries the COUNT the failed one would have had
	shortOps := len(ops) // the full product of histories runs over these
	ops = append(ops, c06op{-1, 2, false})
	// an attempt that fails in the ciphering step (an algorithm identity the library does not implement), a downlink
	// message received in between (integrity protected and ciphered; security mode command with a new-context header):
	// none of them may touch the uplink COUNT
	ops = append(ops, c06op{-2, 2, false}, c06op{-3, 2, false}, c06op{-4, 3, false})
	// a message sent unprotected through the same entry point (no security context to be used for it), with either value
	// of the new-context flag: the plain octets go out and the counters of the context in use stay as they are
	ops = append(ops, c06op{-5, 0, false}, c06op{-5, 0, true})
	// the special operations are combined with three representative sends in their own product of histories
	specialFrom, specialTo := shortOps, len(ops)
	mini := []int{2, 4, 16} // send(msg0,h=3) ; send(msg1,h=1) ; send(msg0,h=4,new context)
	for i := specialFrom; i < specialTo; i++ {
		mini = append(mini, i)
	}
	// long messages (NAS containers go far beyond 256 and 1024 octets): sent in histories of one and two sends only
	longFrom := len(ops)
	for _, n := range []int{240, 243, 244, 245, 300, 1010, 1013, 1100, 4000} {
		msgs = append(msgs, nasTestpacket.GetSecurityModeComplete(pattern(3, n)))
		for h := uint8(1); h <= 4; h++ {
			ops = append(ops, c06op{len(msgs) - 1, h, false})
		}
	}
	kint, kenc := a16(hx("2bd6459f82c5b300952c49104881ff48")), a16(hx("d3c5d592327fb11c4035c6680af8c6d1"))
	depthAES, depthSnow := 3, 3
	if ctx.Thorough {
		depthAES, depthSnow = 4, 3
	}
	lens := []int{}
	for _, m := range msgs {
		lens = append(lens, len(m))
	}
	r.Rule = fmt.Sprintf("all send histories of length <=%d (algorithm pairs without SNOW 3G) / <=%d (pairs with NIA1 or NEA1) over %d operations (plain message of %v octets x security header type 1..4, with and without the new-context flag) x 6 algorithm pairs {NIA1,NIA2}x{NEA0,NEA1,NEA2} x starting COUNT %v (set through the exported counter, so every wrap is crossed); "+
		"plus one- and three-send histories with messages of 250..4000 octets (around the 256- and 1024-octet marks) under every header type, linear histories of 600 sends (two SQN wraps) and 65538 sends (overflow carry), the no-context case, and the counter type over all 2^24 values; oracle: an independent receiver (refnas + refcrypto) with the same keys: SQN octet = COUNT mod 256, COUNT = n-1 since the context was taken into use (new-context resets to 0), MAC = NIA(K, COUNT, BEARER 1, uplink, SQN||message as sent), ciphered only under header types 2/4, recovered plain == submitted plain; non-trivial = history length >= 2; distinct = (algorithms, start, operation sequence)",
		depthAES, depthSnow, len(ops), lens, starts)
	r.Assume("refcrypto anchors (see C07)", "keys are two fixed published test keys: the protection logic has no key-dependent branch")
	if !ctx.IsChild() {
		ctx.Fork(Workers())
		c06counter(r)
		r.Set("operations", len(ops))
		r.Sample("start COUNT 0xffff, NIA2/NEA2: send(RegistrationComplete,h=2) ; send(ServiceRequest,h=1) ; send(ULNASTransport,h=4,new context)")
		return
	}
	l := r.Local()
	item := 0
	for ai, alg := range algs {
		depth := depthAES
		if alg[0] == 1 || alg[1] == 1 {
			depth = depthSnow
		}
		for _, start := range starts {
			var rec func(seq []int)
			rec = func(seq []int) {
				if len(seq) > 0 {
					item++
					if ctx.Mine(item) {
						c06history(r, l, msgs, ops, alg, kint, kenc, start, seq)
					}
				}
				if len(seq) == depth {
					return
				}
				for i := 0; i < shortOps; i++ {
					rec(append(seq, i))
				}
			}
			rec(nil)
		}
		for _, start := range starts {
			var recm func(seq []int)
			recm = func(seq []int) {
				if len(seq) > 0 {
					special := false
					for _, x := range seq {
						special = special || (x >= specialFrom && x < specialTo)
					}
					if special {
						item++
						if ctx.Mine(item) {
							c06history(r, l, msgs, ops, alg, kint, kenc, start, seq)
						}
					}
				}
				if len(seq) == depth {
					return
				}
				for _, i := range mini {
					recm(append(seq, i))
				}
			}
			recm(nil)
		}
		for li := longFrom; li < len(ops); li++ {
			for _, start := range []uint32{0, 0xff} {
				item++
				if ctx.Mine(item) {
					c06history(r, l, msgs, ops, alg, kint, kenc, start, []int{li})
					c06history(r, l, msgs, ops, alg, kint, kenc, start, []int{1, li, 5})
				}
			}
		}
		// linear histories
		item++
		if ctx.Mine(item) {
			n := 600
			seq := make([]int, n)
			for i := range seq {
				seq[i] = (i * 5) % 16
			}
			c06history(r, l, msgs, ops, alg, kint, kenc, 0, seq)
			if ai < 2 || ctx.Thorough {
				seq = make([]int, 65538)
				for i := range seq {
					seq[i] = 4 // RegistrationComplete... op 4 = msg1,h1 ; keep cheap
				}
				c06history(r, l, msgs, ops, alg, kint, kenc, 0, seq)
			}
		}
	}
	// without a security context the message is sent unchanged
	if ctx.Shard == 0 {
		for mi, m := range msgs {
			ue := tglib.NewRanUeContext("imsi-001010000000001", 1, 2, 2)
			out, err := tglib.EncodeNasPduWithSecurity(ue, append([]byte{}, m...), 0, false, false)
			l.Case(fmt.Sprintf("no-context msg %d", mi), true, fmt.Sprintf("%x", out))
			if err != nil || !bytes.Equal(out, m) {
				r.Violate("no-context/message-changed", fmt.Sprintf("msg %d %x", mi, m), fmt.Sprintf("got %x err %v", out, err), nil)
			}
		}
	}
	l.Merge()
}

var c06held held // the protected message returned by the previous send, looked at again after the next one

func c06history(r *report.Report, l *report.Local, msgs [][]byte, ops []c06op, alg [2]uint8, kint, kenc [16]byte, start uint32, seq []int) {
	ue := tglib.NewRanUeContext("imsi-001010000000001", 1, alg[1], alg[0])
	ue.KnasInt, ue.KnasEnc = kint, kenc
	ue.ULCount.Set(uint16(start>>8), uint8(start))
	ue.DLCount.Set(7, 7)
	sc := refnas.SecCtx{NIA: int(alg[0]), NEA: int(alg[1]), KInt: kint, KEnc: kenc}
	expect := start
	desc := fmt.Sprintf("NIA%d/NEA%d start=%#x:", alg[0], alg[1], start)
	short := len(seq) <= 6
	for step, oi := range seq {
		op := ops[oi]
		if short {
			desc += fmt.Sprintf(" send(msg%d,h=%d,new=%v)", op.msg, op.h, op.newCtx)
		}
		// model state: (algorithm pair, COUNT the receiver expects next); transition: one send operation from it
		l.State(c06key(alg, expect, -1))
		l.Transition(c06key(alg, expect, oi))
		if op.msg == -5 {
			var out []byte
			var err error
			dlBefore := ue.DLCount.Get()
			perr := recoverErr(func() { out, err = tglib.EncodeNasPduWithSecurity(ue, append([]byte{}, msgs[0]...), 0, false, op.newCtx) })
			if short {
				desc += fmt.Sprintf(" plain-send(new=%v)", op.newCtx)
			}
			if perr != nil || err != nil || !bytes.Equal(out, msgs[0]) {
				r.Violate("protect/plain-send", desc, fmt.Sprintf("step %d: %x (%v %v), submitted %x", step, out, perr, err, msgs[0]), seq)
				break
			}
			if ue.ULCount.Get() != expect || ue.DLCount.Get() != dlBefore {
				r.Violate("protect/COUNT-changed-by-an-unprotected-send", desc, fmt.Sprintf("step %d: UL COUNT %#x (was %#x), DL COUNT %#x (was %#x)", step, ue.ULCount.Get(), expect, ue.DLCount.Get(), dlBefore), seq)
				break
			}
			continue
		}
		if op.msg == -2 || op.msg == -3 || op.msg == -4 {
			what := map[int]string{-2: "ciphering-failure", -3: "downlink-message-received", -4: "downlink-security-mode-command-received"}[op.msg]
			var ferr error
			perr := recoverErr(func() {
				switch op.msg {
				case -2:
					saved := ue.CipheringAlg
					ue.CipheringAlg = 3 // 128-NEA3: not implemented by the library
					_, ferr = tglib.EncodeNasPduWithSecurity(ue, append([]byte{}, msgs[0]...), 2, true, false)
					ue.CipheringAlg = saved
					if ferr == nil {
						ferr = fmt.Errorf("harness: NEA3 did not fail")
					} else {
						ferr = nil
					}
				case -3:
					dl := (ue.DLCount.Get() + 1) & 0xffffff
					wire := refnas.Protect([]byte{0x7e, 0x00, 0x54}, 2, sc, dl, refnas.DirDownlink)
					_, ferr = tglib.NASDecode(ue, 2, wire)
				case -4:
					wire := refnas.Protect([]byte{0x7e, 0x00, 0x5d, 0x02, 0x00, 0x02, 0x80, 0xa0}, 3, sc, 0, refnas.DirDownlink)
					_, ferr = tglib.NASDecode(ue, 3, wire)
				}
			})
			if short {
				desc += " " + what
			}
			if perr != nil {
				r.Violate("protect/panic-on-"+what, desc, perr.Error(), seq)
				break
			}
			if ferr != nil && op.msg != -2 {
				r.Violate("protect/"+what+"/not-accepted", desc, ferr.Error(), seq)
				break
			}
			if ue.ULCount.Get() != expect {
				r.Violate("protect/uplink-COUNT-changed-by-"+what, desc, fmt.Sprintf("step %d: UL COUNT went from %#x to %#x although no uplink message was sent", step, expect, ue.ULCount.Get()), seq)
				break
			}
			continue
		}
		if op.msg < 0 {
			bad := nas.NewMessage()
			bad.GmmMessage = nas.NewGmmMessage()
			bad.GmmHeader.SetMessageType(0x3f) // not a 5GMM message type
			bad.SecurityHeader = nas.SecurityHeader{ProtocolDiscriminator: 0x7e, SecurityHeaderType: op.h}
			var ferr error
			perr := recoverErr(func() { _, ferr = tglib.NASEncode(ue, bad, true, false) })
			if perr != nil {
				r.Violate("protect/panic-on-failed-attempt", desc, perr.Error(), seq)
				break
			}
			if ferr != nil && ue.ULCount.Get() != expect {
				r.Violate("protect/failed-attempt-consumed-a-COUNT", desc+" [failed attempt]", fmt.Sprintf("step %d: the attempt returned %q and sent nothing, yet UL COUNT went from %#x to %#x", step, ferr.Error(), expect, ue.ULCount.Get()), seq)
				break
			}
			if ferr == nil {
				expect = (expect + 1) & 0xffffff // (the encoder accepted it: then it was a send)
			}
			if short {
				desc += " failed-attempt"
			}
			continue
		}
		if op.newCtx {
			expect = 0
		}
		plain := msgs[op.msg]
		var out []byte
		var err error
		perr := recoverErr(func() {
			out, err = tglib.EncodeNasPduWithSecurity(ue, append([]byte{}, plain...), op.h, true, op.newCtx)
		})
		cs := desc
		if !short {
			cs = fmt.Sprintf("%s linear history of %d sends, step %d (msg%d,h=%d)", desc, len(seq), step, op.msg, op.h)
		}
		if perr != nil || err != nil {
			r.Violate("protect/error", cs, fmt.Sprint(perr, err), seq)
			break
		}
		c06held.next(r, "protect/result-changed-by-a-later-send", out, cs)
		got, h, sqn, uerr := refnas.Unprotect(out, sc, expect, refnas.DirUplink)
		if uerr != nil {
			key := "protect/receiver-rejects"
			switch {
			case len(out) > 6 && sqn != byte(expect):
				key = "protect/sequence-number"
			default:
				// is the MAC right over a differently treated payload? classify: wrong COUNT vs ciphering of a clear header type
				key = fmt.Sprintf("protect/mac-or-count/h=%d/nea=%d", op.h, alg[1])
			}
			r.Violate(key, cs, fmt.Sprintf("step %d expected COUNT %#x: %v; sent %x", step, expect, uerr, out), seq)
			break
		}
		if h != op.h {
			r.Violate("protect/header-type", cs, fmt.Sprintf("sent %d want %d", h, op.h), seq)
		}
		if !bytes.Equal(got, plain) {
			key := fmt.Sprintf("protect/plain-not-recovered/h=%d/nea=%d", op.h, alg[1])
			r.Violate(key, cs, fmt.Sprintf("step %d: receiver recovers %x, submitted %x", step, got, plain), seq)
			break
		}
		expect = (expect + 1) & 0xffffff
		if ue.ULCount.Get() != expect {
			r.Violate("protect/counter-after-send", cs, fmt.Sprintf("step %d: UL COUNT %#x want %#x", step, ue.ULCount.Get(), expect), seq)
			break
		}
		if op.newCtx && ue.DLCount.Get() != 0 {
			r.Violate("protect/new-context-does-not-reset-DL", cs, fmt.Sprintf("DL COUNT %#x", ue.DLCount.Get()), seq)
		}
	}
	l.State(c06key(alg, expect, -1))
	l.Trace()
	if short {
		l.Case(desc, len(seq) >= 2, fmt.Sprint(expect))
	} else {
		l.Case(fmt.Sprintf("%s linear %d", desc, len(seq)), true, fmt.Sprint(expect))
	}
}

// c06counter: the counter type against integer arithmetic over all 2^24 values.
func c06counter(r *report.Report) {
	ParallelFor(r, 1<<24, func(l *report.Local, v int) {
		var c security.Count
		c.Set(uint16(v>>8), uint8(v))
		ok := c.Get() == uint32(v) && c.SQN() == uint8(v) && c.Overflow() == uint16(v>>8)
		c.AddOne()
		ok = ok && c.Get() == uint32(v+1)&0xffffff
		var d security.Count
		d.SetOverflow(uint16(v >> 8))
		d.SetSQN(uint8(v))
		ok = ok && d.Get() == uint32(v)
		d.SetSQN(uint8(v + 3))
		ok = ok && d.Overflow() == uint16(v>>8) && d.SQN() == uint8(v+3)
		l.CaseN(true, uint64(v>>10))
		if !ok {
			r.Violate("counter/arithmetic", fmt.Sprintf("value %#x", v), "Set/Get/AddOne/SQN/Overflow disagree with 24-bit integer arithmetic", nil)
		}
	})
}

// c06key: a collision-free packing of (algorithm pair, 24-bit COUNT, operation index or -1) for the state accounting.
func c06key(alg [2]uint8, count uint32, op int) uint64 {
	return uint64(alg[0])<<56 | uint64(alg[1])<<48 | uint64(uint16(op+1))<<24 | uint64(count&0xffffff)
}
