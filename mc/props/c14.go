package props

import (
	"io"
	"github.com/sirupsen/logrus"
	aperlogger "free5gclib/aper/logger"
	"strings"
	"bytes"
	"fmt"
	"os"
	"runtime"
	"runtime/debug"
	"sync/atomic"
	"syscall"
	"time"

	"free5gclib/ngap"
	"mc/explore"
	"mc/ngapgen"
	"mc/refper"
)

func init() { register("C14", "exploration", runC14) }

const (
	c14AllocBound = 32 << 20 // per call: twice the largest schema-legal allocation (a 65535-element IE list, ~15 MiB)
	c14Horizon    = 10 * time.Second
	c14Batch      = 128
)

// c14Seeds: reference encodings of every message type (default value) and, in thorough, of every value one
// CHOICE alternative / IE selection away from it.
func c14Seeds(s *refper.Schema, thorough bool) (seeds [][]byte, names []string) {
	codec := &refper.Codec{S: s}
	for _, m := range ngapgen.Messages(s) {
		if !ngapgen.New(s, nil).Usable(m.Type) {
			continue
		}
		m := m
		bound := 0
		if thorough {
			bound = 1
		}
		explore.Explore(explore.Config{Bound: bound, Workers: 1}, func(c *explore.Chooser, w int) {
			g := ngapgen.New(s, c)
			node := g.PDU(m)
			if c.Deviations() > 0 {
				keep := false
				for i, p := range c.Picks {
					if p != 0 {
						lb := c.Labels[i]
						keep = len(lb) > 4 && (lb[len(lb)-4:] == "#alt" || lb[len(lb)-4:] == "#ies" || strings.HasSuffix(lb, "#mixed-pair"))
					}
				}
				if !keep || g.OutsideRoot {
					return
				}
			}
			b, err := codec.Encode("NGAPPDU", refper.PDUTag, node)
			if err == nil && len(b) <= 4096 {
				seeds = append(seeds, b)
				names = append(names, m.Name+" "+c.Describe())
			}
		})
	}
	return
}

// c14NestedSeeds: reference encodings two structural choices away from the default where the second choice lies INSIDE
// the first one: a CHOICE alternative (or a two-element list of a pair of alternatives) and, within the value that
// alternative brought in, one further CHOICE alternative (GlobalRANNodeID -> ng-eNB -> short macro id). They get the
// cheap structure-preserving corruptions only.
func c14NestedSeeds(s *refper.Schema) (seeds [][]byte) {
	codec := &refper.Codec{S: s}
	seen := map[string]bool{}
	structural := func(lb string) bool {
		return strings.HasSuffix(lb, "#alt") || strings.HasSuffix(lb, "#mixed-pair")
	}
	for _, m := range ngapgen.Messages(s) {
		if !ngapgen.New(s, nil).Usable(m.Type) {
			continue
		}
		base := explore.Replay(nil)
		ngapgen.New(s, base).PDU(m)
		for i, lb := range base.Labels {
			if !structural(lb) {
				continue
			}
			for a := 1; a < base.Arity[i]; a++ {
				p1 := append(append([]int{}, base.Picks[:i]...), a)
				c1 := explore.Replay(p1)
				ngapgen.New(s, c1).PDU(m)
				scope := lb[:strings.LastIndex(lb, "#")]
				for j := i + 1; j < len(c1.Labels); j++ {
					if !strings.HasSuffix(c1.Labels[j], "#alt") || !strings.HasPrefix(c1.Labels[j], scope) {
						continue
					}
					for b := 1; b < c1.Arity[j]; b++ {
						p2 := append(append([]int{}, c1.Picks[:j]...), b)
						c2 := explore.Replay(p2)
						g := ngapgen.New(s, c2)
						node := g.PDU(m)
						if g.OutsideRoot {
							continue
						}
						if enc, err := codec.Encode("NGAPPDU", refper.PDUTag, node); err == nil && len(enc) <= 4096 && !seen[string(enc)] {
							seen[string(enc)] = true
							seeds = append(seeds, enc)
						}
					}
				}
			}
		}
	}
	return
}

// c14rewrap: structure-preserving corruption. An NGAP PDU is choice(1) procedureCode(1) criticality(1) length value,
// and the value of every message is preamble(1) ieCount(2) { id(2) criticality(1) length value }*. For every IE and
// every position inside its value a run of adversarial octets is inserted and the two enclosing length determinants
// are RE-COMPUTED, so that the inner decoder really reaches the run (a run inserted blindly is cut off by the
// enclosing open-type length). Returns nil when the seed does not have that shape.
func c14rewrap(seed []byte, runs []int, seen map[string]bool, emit func([]byte)) {
	c14rewrapN(seed, runs, seen, emit, true)
}

func c14rewrapN(seed []byte, runs []int, seen map[string]bool, emit func([]byte), full bool) {
	det := func(b []byte) (n, w int, ok bool) { // general length determinant, unfragmented forms
		if len(b) == 0 {
			return 0, 0, false
		}
		if b[0] < 0x80 {
			return int(b[0]), 1, true
		}
		if b[0] < 0xc0 && len(b) >= 2 {
			return int(b[0]&0x3f)<<8 | int(b[1]), 2, true
		}
		return 0, 0, false
	}
	put := func(n int) []byte {
		if n < 128 {
			return []byte{byte(n)}
		}
		return []byte{0x80 | byte(n>>8), byte(n)}
	}
	if len(seed) < 8 {
		return
	}
	l1, w1, ok := det(seed[3:])
	if !ok || 3+w1+l1 != len(seed) || l1 < 3 {
		return
	}
	body := seed[3+w1:]
	type ie struct{ hdr, val []byte }
	var ies []ie
	p := 3
	for p < len(body) {
		if p+3 > len(body) {
			return
		}
		li, wi, ok := det(body[p+3:])
		if !ok || p+3+wi+li > len(body) {
			return
		}
		ies = append(ies, ie{body[p : p+3], body[p+3+wi : p+3+wi+li]})
		p += 3 + wi + li
	}
	rebuild := func(i int, nv []byte) {
		nb := append([]byte{}, body[:3]...)
		for j := range ies {
			v := ies[j].val
			if j == i {
				v = nv
			}
			nb = append(nb, ies[j].hdr...)
			nb = append(nb, put(len(v))...)
			nb = append(nb, v...)
		}
		if len(nb) >= 16384 {
			return
		}
		m := append([]byte{}, seed[:3]...)
		m = append(m, put(len(nb))...)
		m = append(m, nb...)
		if len(m) <= 4096 {
			emit(m)
		}
	}
	// every IE value cut to its first 0..3 octets, its last remaining octet also replaced by adversarial values, and every
	// IE value replaced by each single octet: the enclosing lengths say exactly that (the inner decoder runs out of data
	// in the middle of a field, with nothing of the outer message left to read into)
	for i := range ies {
		// once per (message, IE, leading octets of its value): the seeds of one message differ in one IE at a time
		k := fmt.Sprintf("%x/%x/%x", seed[:3], ies[i].hdr, ies[i].val[:min(len(ies[i].val), 3)])
		if seen[k] {
			continue
		}
		seen[k] = true
		for n := 0; n <= 3 && n <= len(ies[i].val); n++ {
			cut := append([]byte{}, ies[i].val[:n]...)
			rebuild(i, cut)
			if n > 0 {
				for _, b := range []byte{0x00, 0x01, 0x20, 0x40, 0x7f, 0x80, 0xc1, 0xff} {
					c2 := append([]byte{}, cut...)
					c2[n-1] = b
					rebuild(i, c2)
				}
			}
		}
		for b := 0; b < 256; b++ {
			rebuild(i, []byte{byte(b)})
		}
	}
	// every IE value with its last 1..3 octets missing (the enclosing lengths say so): the inner decoder runs out of data
	// in the last field, with a buffer that ends exactly there
	for i := range ies {
		for k := 1; k <= 3 && k < len(ies[i].val); k++ {
			rebuild(i, append([]byte{}, ies[i].val[:len(ies[i].val)-k]...))
		}
	}
	if !full {
		return
	}
	for i := range ies {
		for pos := 0; pos <= len(ies[i].val); pos++ {
			for _, b := range []byte{0xc4, 0xc1, 0xff, 0x80} {
				for _, n := range runs {
					nv := make([]byte, 0, len(ies[i].val)+n)
					nv = append(nv, ies[i].val[:pos]...)
					nv = append(nv, bytes.Repeat([]byte{b}, n)...)
					nv = append(nv, ies[i].val[pos:]...)
					nb := append([]byte{}, body[:3]...)
					for j := range ies {
						v := ies[j].val
						if j == i {
							v = nv
						}
						if len(v) >= 16384 {
							nb = nil
							break
						}
						nb = append(nb, ies[j].hdr...)
						nb = append(nb, put(len(v))...)
						nb = append(nb, v...)
					}
					if nb == nil || len(nb) >= 16384 {
						continue
					}
					m := append([]byte{}, seed[:3]...)
					m = append(m, put(len(nb))...)
					m = append(m, nb...)
					if len(m) <= 4096 {
						emit(m)
					}
				}
			}
		}
	}
}

var c14seq int

type c14state struct {
	cur      atomic.Value // string: description of the input being decoded
	start    atomic.Int64
	cpuStart atomic.Int64
}

func runC14(ctx *Ctx) {
	r := ctx.R
	s, err := loadSchema()
	if err != nil {
		r.HarnessError(err.Error())
		return
	}
	maxLen := 2
	if ctx.Thorough {
		maxLen = 3
	}
	seeds, names := c14Seeds(s, ctx.Thorough)
	altSeeds := seeds // seeds incl. every CHOICE alternative / IE selection / two-element list with each ordered pair of alternatives: used by the structure-preserving corruptions in both tiers
	if !ctx.Thorough {
		altSeeds, _ = c14Seeds(s, true)
	}
	rewrapRuns := []int{8, 64}
	if ctx.Thorough {
		rewrapRuns = []int{2, 8, 64, 1000}
	}
	runLens := []int{6, 48, 200}
	if ctx.Thorough {
		runLens = []int{2, 3, 6, 12, 48, 200, 1000, 3900}
	}
	pairAlphabet, maxGap := []byte{0x00, 0x7f, 0x80, 0xc1, 0xff}, 3
	if ctx.Thorough {
		pairAlphabet, maxGap = []byte{0x00, 0x01, 0x7f, 0x80, 0x81, 0xbf, 0xc0, 0xc1, 0xc4, 0xc5, 0xfe, 0xff}, 6
	}
	r.Rule = fmt.Sprintf("(a) every octet string of length 0..%d; (b) for each of %d seeds (reference encodings of every message type%s): every prefix, every single-octet substitution (len x 255), every single-bit flip, every 2-octet length form {8000,bfff,c4ff,ffff} at every position, runs of 6..200 (thorough: 2..3900) octets c4 / c1 / ff / 80 inserted at every position, the same runs (8 and 64 octets; thorough 2..1000) inserted at every position inside every IE value of every message and CHOICE alternative with the two enclosing length determinants re-computed, every IE value cut to 0..3 octets (last octet also adversarial) or short of its last 1..3 octets (these two also on encodings with a CHOICE alternative nested inside another non-default alternative or inside a mixed pair) or replaced by each single octet with the lengths re-computed, every pair of octets up to %d positions apart replaced by every pair from a %d-value adversarial alphabet (unknown identifiers x fragmented / overlong / zero length determinants)%s; (d) for every procedure code 0..63 and 255 (thorough: all 256) x {initiating, successful, unsuccessful}: container header {000000, 000001} followed by every string of <=4 (thorough: 5 for codes 0..63 and 255) octets over {00,01,02,03,40,80,82,ff}, outer length computed (messages no seed exists for, e.g. PRIVATE MESSAGE); "+
		"oracle: ngap.Decoder returns (value|error) - no panic (every eighth input with the codec's logger at trace level; a returned error is also read), per-call allocation <= %d MiB (schema-legal maximum is ~15 MiB for a 65535-element IE list), per-call CPU time below a %v horizon; each input is decoded in a shard process with an address-space limit; distinct = distinct inputs (hashed); non-trivial = all",
		maxLen, len(seeds), map[bool]string{true: " and of every value one CHOICE alternative / IE selection away", false: ""}[ctx.Thorough], maxGap, len(pairAlphabet),
		map[bool]string{true: ", every pair of bit flips in the first 24 octets", false: ""}[ctx.Thorough], c14AllocBound>>20, c14Horizon)
	r.Assume("allocation is measured per batch of 128 calls (runtime.MemStats.TotalAlloc) and per call when a batch exceeds the bound", "coverage-guided fuzzing named in the property's quantifier text is a different technique family and is not used")
	if !ctx.IsChild() {
		ctx.Fork(Workers())
		r.Set("seeds", len(seeds))
		r.Sample("all octet strings of length <= " + fmt.Sprint(maxLen))
		if len(seeds) > 0 {
			r.Sample(fmt.Sprintf("seed %q = %x: prefixes, substitutions, bit flips", names[0], seeds[0]))
		}
		return
	}
	// ---- child ----
	var lim syscall.Rlimit
	lim.Cur, lim.Max = 6<<30, 6<<30
	syscall.Setrlimit(syscall.RLIMIT_AS, &lim)
	debug.SetGCPercent(50)
	st := &c14state{}
	st.cur.Store("")
	l := r.Local()
	flush := func() { l.Merge() }
	// watchdog: a decode that does not return within the horizon is reported and ends this shard
	go func() {
		for {
			time.Sleep(500 * time.Millisecond)
			t0 := st.start.Load()
			if hungSince(t0, st.cpuStart.Load(), c14Horizon) && st.start.Load() == t0 {
				in := st.cur.Load().(string)
				r.Violate("decode/does-not-terminate", in, fmt.Sprintf("no return after %v of CPU time", c14Horizon), nil)
				r.NotExhaustive("a shard stopped at a non-terminating input")
				r.WritePartial(os.Getenv("MC_PARTIAL"))
				os.Exit(0)
			}
		}
	}()
	var batch [][]byte
	var ms runtime.MemStats
	decodeOne := func(in []byte) {
		st.cur.Store(fmt.Sprintf("%x", in))
		st.cpuStart.Store(processCPU())
		st.start.Store(time.Now().UnixNano())
		var derr error
		c14seq++
		verbose := c14seq%8 == 0 // every eighth input with the codec's logger at its most verbose level (output discarded)
		var lg *logrus.Logger
		var oldOut io.Writer
		var oldLevel logrus.Level
		var oldHooks logrus.LevelHooks
		if verbose {
			lg = aperlogger.AperLog.Logger
			oldOut, oldLevel = lg.Out, lg.Level
			lg.SetOutput(io.Discard)
			oldHooks = lg.ReplaceHooks(make(logrus.LevelHooks))
			lg.SetLevel(logrus.TraceLevel)
		}
		perr := recoverErr(func() { _, derr = ngap.Decoder(in) })
		if verbose {
			lg.SetLevel(oldLevel)
			lg.ReplaceHooks(oldHooks)
			lg.SetOutput(oldOut)
		}
		st.start.Store(0)
		out := "ok"
		if derr != nil {
			out = "err"
			// the error returned is a value the caller reads: reading it must not crash either
			if eperr := recoverErr(func() { _ = derr.Error() }); eperr != nil {
				r.Violate("decode/error-value-panics-when-read/"+errClass(eperr), fmt.Sprintf("%x", in), eperr.Error(), nil)
			}
		}
		if perr != nil {
			out = "panic"
			r.Violate("decode/panic/"+errClass(perr), fmt.Sprintf("%x", in), perr.Error(), nil)
		}
		l.Case(string(in), true, out)
	}
	runBatch := func() {
		if len(batch) == 0 {
			return
		}
		runtime.ReadMemStats(&ms)
		before := ms.TotalAlloc
		for _, in := range batch {
			decodeOne(in)
		}
		runtime.ReadMemStats(&ms)
		if ms.TotalAlloc-before > c14AllocBound {
			for _, in := range batch { // find the culprit(s)
				runtime.ReadMemStats(&ms)
				b0 := ms.TotalAlloc
				recoverErr(func() { ngap.Decoder(in) })
				runtime.ReadMemStats(&ms)
				if d := ms.TotalAlloc - b0; d > c14AllocBound {
					r.Violate("decode/allocation-above-bound", fmt.Sprintf("%x", in), fmt.Sprintf("%d octets of input allocated %d MiB", len(in), d>>20), nil)
				}
			}
		}
		batch = batch[:0]
		flush()
	}
	idx := 0
	feed := func(in []byte) {
		idx++
		if !ctx.Mine(idx) {
			return
		}
		batch = append(batch, append([]byte{}, in...))
		if len(batch) >= c14Batch {
			runBatch()
		}
	}
	// (a) all short strings
	feed(nil)
	for n := 1; n <= maxLen; n++ {
		total := 1 << uint(8*n)
		buf := make([]byte, n)
		for v := 0; v < total; v++ {
			for i := 0; i < n; i++ {
				buf[i] = byte(v >> uint(8*(n-1-i)))
			}
			feed(buf)
		}
	}
	// (b) mutations of seeds
	for _, seed := range seeds {
		for n := 0; n < len(seed); n++ {
			feed(seed[:n])
		}
		for pos := range seed {
			for d := 1; d < 256; d++ {
				m := append([]byte{}, seed...)
				m[pos] ^= byte(d)
				feed(m)
			}
			if pos+1 < len(seed) {
				for _, two := range [][2]byte{{0x80, 0x00}, {0xbf, 0xff}, {0xc4, 0xff}, {0xff, 0xff}} {
					m := append([]byte{}, seed...)
					m[pos], m[pos+1] = two[0], two[1]
					feed(m)
				}
			}
		}
		// runs of adversarial octets inserted at every position (a determinant that is read in a loop - fragments, counts
		// that add up - needs many of them in a row before an allocation or a running time gets out of proportion)
		for pos := 0; pos <= len(seed); pos++ {
			for _, b := range []byte{0xc4, 0xc1, 0xff, 0x80} {
				for _, n := range runLens {
					m := make([]byte, 0, len(seed)+n)
					m = append(m, seed[:pos]...)
					m = append(m, bytes.Repeat([]byte{b}, n)...)
					m = append(m, seed[pos:]...)
					if len(m) <= 4096 {
						feed(m)
					}
				}
			}
		}
		// pairs of adversarial octets a short distance apart (an identifier / choice / count octet made unknown AND the
		// length determinant next to it made adversarial: faults that need two fields wrong at once)
		for pos := range seed {
			for gap := 1; gap <= maxGap && pos+gap < len(seed); gap++ {
				for _, a := range pairAlphabet {
					for _, b := range pairAlphabet {
						if a == seed[pos] || b == seed[pos+gap] {
							continue // single substitutions are covered above
						}
						m := append([]byte{}, seed...)
						m[pos], m[pos+gap] = a, b
						feed(m)
					}
				}
			}
		}
		if ctx.Thorough {
			nb := 8 * len(seed)
			if nb > 192 {
				nb = 192
			}
			for i := 0; i < nb; i++ {
				for j := i + 1; j < nb; j++ {
					m := append([]byte{}, seed...)
					m[i/8] ^= 0x80 >> uint(i%8)
					m[j/8] ^= 0x80 >> uint(j%8)
					feed(m)
				}
			}
		}
	}
	// (c) structure-preserving runs inside every IE value, enclosing lengths re-computed
	seenIE := map[string]bool{}
	for _, seed := range altSeeds {
		c14rewrap(seed, rewrapRuns, seenIE, feed)
	}
	nested := c14NestedSeeds(s)
	for _, seed := range nested {
		c14rewrapN(seed, nil, seenIE, feed, false)
	}
	r.Add("nested_choice_seeds", int64(len(nested)))
	// (d) skeletons of messages no seed exists for (the repository's encoder cannot build them, or the type is not in the
	// schema at all): for every procedure code and PDU kind a body made of a container header and every string of up to
	// skelFree octets over a small alphabet of structure-bearing values (choice / extension bits, small lengths and
	// counts, continuation bits), the outer length determinant computed
	skelCodes, skelFree := 64, 4
	if ctx.Thorough {
		skelCodes, skelFree = 256, 5
	}
	skelAlpha := []byte{0x00, 0x01, 0x02, 0x03, 0x40, 0x80, 0x82, 0xff}
	for pc := 0; pc <= skelCodes; pc++ {
		code := byte(pc)
		if pc == skelCodes {
			code = 0xff
		}
		for _, kind := range []byte{0x00, 0x20, 0x40} {
			for _, prefix := range [][]byte{{0x00, 0x00, 0x00}, {0x00, 0x00, 0x01}} {
				free := make([]byte, 0, skelFree)
				var rec func()
				rec = func() {
					body := append(append([]byte{}, prefix...), free...)
					feed(append([]byte{kind, code, 0x40, byte(len(body))}, body...))
					if len(free) == skelFree || (len(free) == 4 && pc > 63 && pc != skelCodes) {
						return // (thorough: five free octets for the codes NGAP defines and 255, four for the rest)
					}
					for _, a := range skelAlpha {
						free = append(free, a)
						rec()
						free = free[:len(free)-1]
					}
				}
				rec()
			}
		}
	}
	runBatch()
}
