//go:build c20sched

package props

import (
	"bytes"
	"context"
	"encoding/json"
	"fmt"
	"mc/report"
	"os"
	"os/exec"
	"path/filepath"
	"regexp"
	"strings"
	"time"

	"free5gclib/vsched"
	"mc/explore"
)

func init() { register("C20", "model_checking", runC20) }

func runC20(ctx *Ctx) {
	r := ctx.R
	ops := c20ops()
	bound := 2
	vsched.MaxPerSite, vsched.MaxPerFn = 8, 1
	if ctx.Thorough {
		bound = 3
		vsched.MaxPerSite, vsched.MaxPerFn = 16, 2
	}
	// the repository's NASDecode prints to stdout: keep the check's own stdout for verdict lines only
	if devnull, err := os.OpenFile(os.DevNull, os.O_WRONLY, 0); err == nil {
		real := os.Stdout
		os.Stdout = devnull
		defer func() { os.Stdout = real }()
		if !ctx.IsChild() {
			defer func() { os.Stdout = real }()
		}
	}
	// sequential outputs (and references) first: Yield is a no-op outside a scheduled run
	seq := map[string]string{}
	for _, o := range ops {
		for ue := 0; ue < 3; ue++ {
			got := o.run(ue)
			seq[fmt.Sprint(o.name, ue)] = got
			if want, ok := c20reference(o.name, ue); ok && want != got {
				r.Violate("sequential/"+o.name, fmt.Sprintf("%s for UE %d alone", o.name, ue), fmt.Sprintf("got %s want %s (see C07)", got, want), nil)
			}
		}
	}
	type group struct{ idx []int }
	var groups []group
	// families of operations that share code (and therefore any state a change may add to it); the two codecs are
	// used by almost everything. Quick: every operation against itself (two UEs in the same code is where shared
	// state shows first), every pair inside a family and every pair involving one of the codecs; thorough: all pairs.
	family := map[string]string{"NEA1": "snow", "NIA1": "snow", "NEA1(300 octets)": "snow", "NIA1(300 octets)": "snow", "NASEncode(NIA1,NEA1)": "snow", "NASDecode(NIA1,NEA1)": "snow",
		"NEA2": "aes", "NIA2": "aes", "NEA2(300 octets)": "aes", "NASEncode(NIA2,NEA2)": "aes", "NASDecode(NIA2,NEA0)": "aes",
		"DeriveRESstarAndSetKey": "keys", "DeriveRESstarAndSetKey(OP only)": "keys", "Milenage+KDF": "keys",
		"SUCI+CreateUE+capability": "ids", "identifier conversions": "ids", "NAS constructors": "nas", "NAS-plain-codec": "codec", "NGAP-encode-decode": "codec", "NGAP builders": "ngap", "NGAP refused encode": "ngap", "NIA2(key equal for all UEs)": "aes", "NEA2(key equal for all UEs)": "aes", "DeriveRESstarAndSetKey(OP only, one operator OP, own K)": "keys", "NASEncode(NIA0,NEA0) short message": "nas", "GetNasPdu(NIA2,NEA2)": "aes", "DeriveRESstarAndSetKey(OP only, operator record shared)": "keys"}
	nsingle := len(ops) - len(c20sequences)
	for i := nsingle; i < len(ops); i++ {
		groups = append(groups, group{[]int{i, i}}) // two threads, each performing the same two operations in a row on its own UE
	}
	for a := 0; a < nsingle; a++ {
		for b := a; b < nsingle; b++ {
			fa, fb := family[ops[a].name], family[ops[b].name]
			if ctx.Thorough || a == b || fa == fb || fa == "codec" || fb == "codec" {
				groups = append(groups, group{[]int{a, b}})
			}
		}
	}
	nlong := 0
	if ctx.Thorough {
		// long-message operations, each against itself (one preemption: they have thousands of scheduling points)
		for _, o := range c20long() {
			ops = append(ops, o)
			nlong++
			groups = append(groups, group{[]int{len(ops) - 1, len(ops) - 1}})
			for ue := 0; ue < 3; ue++ {
				seq[fmt.Sprint(o.name, ue)] = o.run(ue)
			}
		}
	}
	if ctx.Thorough {
		for _, t := range [][]int{{0, 0, 0}, {0, 1, 6}, {1, 1, 8}, {0, 6, 8}, {6, 8, 10}, {4, 4, 4}, {5, 5, 5}, {14, 14, 14}, {11, 11, 12}} {
			groups = append(groups, group{t})
		}
	}
	npairs := 0
	for _, g := range groups {
		if len(g.idx) == 2 {
			npairs++
		}
	}
	if !ctx.IsChild() {
		ctx.Fork(Workers())
		c20race(ctx)
		r.Set("operation_groups", len(groups))
		r.Set("preemption_bound", bound)
		r.Set("yield_instances_per_site_and_thread", vsched.MaxPerSite)
		r.Set("yield_instances_per_function_entry_and_thread", vsched.MaxPerFn)
		if b, err := os.ReadFile(filepath.Join(report.BuildDir, "ovl20", "instrument.json")); err == nil {
			var ins struct {
				Mutated []string `json:"mutated"`
				Sites   int      `json:"sites"`
			}
			if json.Unmarshal(b, &ins) == nil {
				r.Set("mutated_package_level_variables", ins.Mutated)
				r.Set("yield_sites", ins.Sites)
			}
		}
		r.Sample("threads: UE0 NEA1(5 octets) || UE1 NIA1(9 octets): every interleaving at the 90+ yield points with <=2 preemptions; outputs must equal the sequential ones")
		r.Rule = fmt.Sprintf("cooperative scheduler (one goroutine runs at a time; scheduling points = every statement that reads or writes a package-level variable mutated at run time anywhere in the instrumented packages [found by AST analysis of the current tree, listed under mutated_package_level_variables; the first %d dynamic instances of each such statement per thread], scheduler-aware mutex operations, thread start/end): for %d unordered pairs of %d operation kinds (28 single operations and 14 two-operation sequences performed by one thread, each sequence against itself) (each thread on its own UE context, keys and messages; quick: every operation against itself, every pair inside a family of operations sharing code, every pair involving a codec; thorough: all pairs)%s every schedule with <=%d preemptions (one less for groups containing a composite NASEncode/NASDecode operation and, in quick, for pairs across families); "+
			"oracle: every thread's outputs == the outputs of the same operation run alone (and == the independent references for NEA1/NIA1); deadlock = violation; plus cold start: every single operation against itself and four pairs of primitives sharing tables, every schedule with <=1 (thorough 2) preemptions, ONE execution per fresh process (lazily built state is built by the two threads' own first calls), same oracle; plus, built with -race, one cold pass per operation (a fresh process whose first use of the library is that operation on 8 goroutines at once) and a separate free-running pass of the same bodies and of four long-message operations (9000 octets; the scheduler takes those in thorough only, against themselves with one preemption) built with -race (G in {2,8,64} goroutines, 200 rounds): any data race report is a violation; distinct = (group, schedule); non-trivial = schedules with at least one preemption",
			vsched.MaxPerSite, npairs, len(ops), map[bool]string{true: " and 9 triples", false: ""}[ctx.Thorough], bound)
		r.Assume("only sequentially consistent interleavings at the inserted yield points are explored; unsynchronised accesses elsewhere are the business of the free-running -race pass (a dynamic detector, not an enumeration)",
			"switches at a thread's end count as deviations in the explorer (exact for 2 threads, a slightly smaller space than the true preemption bound for 3)")
		return
	}
	l := r.Local()
	for gi, g := range groups {
		if !ctx.Mine(gi) {
			continue
		}
		names := []string{}
		for _, i := range g.idx {
			names = append(names, ops[i].name)
		}
		gname := strings.Join(names, " || ")
		deadline := time.Now().Add(100 * time.Second)
		if !ctx.Thorough {
			deadline = time.Now().Add(10 * time.Minute) // (a quick group takes seconds; a busy machine must not cut it)
		}
		gb := bound
		if !ctx.Thorough && len(g.idx) == 2 && g.idx[0] != g.idx[1] && family[ops[g.idx[0]].name] != family[ops[g.idx[1]].name] {
			gb = bound - 1 // quick: a codec against an operation of another family with one preemption less
		}
		for _, i := range g.idx {
			if (i >= 6 && i <= 9) || (i >= nsingle && i < len(ops)-nlong) { // composite protect/unprotect operations and two-operation sequences have several times the scheduling points of a primitive
				gb = bound - 1
			}
		}
		if g.idx[0] >= len(ops)-nlong {
			gb = 1
		}
		st := explore.Explore(explore.Config{Bound: gb, Workers: 1, Deadline: deadline}, func(c *explore.Chooser, w int) {
			outs := make([]string, len(g.idx))
			bodies := make([]func(), len(g.idx))
			for t, oi := range g.idx {
				t, oi := t, oi
				bodies[t] = func() { outs[t] = ops[oi].run(t) }
			}
			var s *vsched.Sched
			var err error
			perr := recoverErr(func() {
				s, err = vsched.Run(bodies, func(p vsched.Point) int { return c.Pick("at "+p.Label, len(p.Enabled)) })
			})
			cs := fmt.Sprintf("%s schedule %v", gname, c.Picks)
			l.Case(cs, c.Deviations() > 0, strings.Join(outs, "|"))
			if perr != nil {
				r.Violate("concurrent/panic/"+gname, cs, perr.Error(), c.Picks)
				return
			}
			if err != nil {
				r.Violate("concurrent/deadlock/"+gname, cs, err.Error(), c.Picks)
				return
			}
			// explicit accounting of the explored schedule space: a state is (group, how many scheduling points each thread
			// has passed, which thread runs), a transition is one scheduling decision, a trace one complete schedule
			if s != nil {
				pos := make([]int, len(g.idx))
				l.State(report.H(fmt.Sprint("c20", gi, pos, -1)))
				for _, tid := range s.Trace {
					l.Transition(report.H(fmt.Sprint("c20", gi, pos, tid)))
					pos[tid]++
					l.State(report.H(fmt.Sprint("c20", gi, pos, tid)))
				}
				l.Trace()
			}
			for t, oi := range g.idx {
				if want := seq[fmt.Sprint(ops[oi].name, t)]; outs[t] != want {
					r.Violate("concurrent/result-differs-from-sequential/"+gname, cs, fmt.Sprintf("thread %d (%s): %s, alone: %s", t, ops[oi].name, outs[t], want), c.Picks)
					return
				}
			}
		})
		r.Set("schedules:"+gname, st.Executions)
		if !st.Complete {
			r.NotExhaustive(fmt.Sprintf("%s: budget ended at preemption level %d", gname, st.BoundCompleted+1))
		}
		l.Merge()
	}
	// cold start: every single operation against itself, and the pairs of primitives that share tables
	coldPairs := [][2]int{}
	for a := 0; a < nsingle; a++ {
		coldPairs = append(coldPairs, [2]int{a, a})
	}
	coldPairs = append(coldPairs, [2]int{0, 1}, [2]int{2, 3}, [2]int{0, 6}, [2]int{2, 7})
	var coldRuns int64
	for ci, cp := range coldPairs {
		if ctx.Mine(len(groups) + ci) {
			coldRuns += c20cold(ctx, l, ops, seq, cp[0], cp[1])
			l.Merge()
		}
	}
	r.Add("cold_start_executions_one_process_each", coldRuns)
}

// ---- cold start ----
//
// State that the library builds lazily on first use (a table filled by the first call, a once-guarded cache) is already
// there in every execution after the first one of a process, so the exploration above only sees it warm. c20cold runs
// every schedule of a pair of operations with <= 1 preemption in a FRESH process each (one execution per process: the
// two threads' calls are the first use of everything), and compares with the outputs of the warm sequential runs.

func init() { workerKinds["c20cold"] = c20coldWorker }

type c20coldResult struct {
	Arity []int    `json:"arity"`
	Outs  []string `json:"outs"`
	Err   string   `json:"err"`
	Panic string   `json:"panic"`
}

// c20coldWorker: args = opA opB comma-separated-picks; prints one JSON line.
func c20coldWorker(args []string) {
	real := os.Stdout
	if devnull, err := os.OpenFile(os.DevNull, os.O_WRONLY, 0); err == nil {
		os.Stdout = devnull
	}
	vsched.MaxPerSite, vsched.MaxPerFn = 3, 1
	ops := c20ops()
	var idx []int
	for _, a := range args[:2] {
		for i, o := range ops {
			if o.name == a {
				idx = append(idx, i)
			}
		}
	}
	var prefix []int
	for _, f := range strings.Split(args[2], ",") {
		if f != "" {
			var v int
			fmt.Sscan(f, &v)
			prefix = append(prefix, v)
		}
	}
	c := explore.Replay(prefix)
	res := c20coldResult{Outs: make([]string, len(idx))}
	bodies := make([]func(), len(idx))
	for t, oi := range idx {
		t, oi := t, oi
		bodies[t] = func() { res.Outs[t] = ops[oi].run(t) }
	}
	if perr := recoverErr(func() {
		if _, err := vsched.Run(bodies, func(p vsched.Point) int { return c.Pick("at "+p.Label, len(p.Enabled)) }); err != nil {
			res.Err = err.Error()
		}
	}); perr != nil {
		res.Panic = perr.Error()
	}
	res.Arity = c.Arity
	b, _ := json.Marshal(res)
	fmt.Fprintln(real, string(b))
}

// c20cold explores one pair from cold; returns the number of executions.
func c20cold(ctx *Ctx, l *report.Local, ops []c20op, seq map[string]string, a, b int) int64 {
	r := ctx.R
	self, err := os.Executable()
	if err != nil {
		r.HarnessError(err.Error())
		return 0
	}
	gname := "cold start: " + ops[a].name + " || " + ops[b].name
	cb := 1
	if ctx.Thorough {
		cb = 2
	}
	st := explore.Explore(explore.Config{Bound: cb, Workers: 1, Deadline: time.Now().Add(300 * time.Second)}, func(c *explore.Chooser, w int) {
		var picks []string
		for _, v := range c.Prefix() {
			picks = append(picks, fmt.Sprint(v))
		}
		cctx, cancel := context.WithTimeout(context.Background(), 10*time.Minute)
		cmd := exec.CommandContext(cctx, self, "--worker", "c20cold", ops[a].name, ops[b].name, strings.Join(picks, ","))
		cmd.Env = append(os.Environ(), "GOMAXPROCS=1")
		out, err := cmd.Output()
		cancel()
		var res c20coldResult
		if err != nil || json.Unmarshal(bytes.TrimSpace(out), &res) != nil {
			r.HarnessError(fmt.Sprintf("%s: worker failed: %v %s", gname, err, tail(string(out), 300)))
			return
		}
		for i, n := range res.Arity {
			c.Pick(fmt.Sprint("point ", i), n)
		}
		cs := fmt.Sprintf("%s schedule %v", gname, c.Picks)
		l.Case(cs, c.Deviations() > 0, strings.Join(res.Outs, "|"))
		l.Trace()
		if res.Panic != "" {
			r.Violate("cold-start/panic/"+gname, cs, res.Panic, c.Picks)
			return
		}
		if res.Err != "" {
			r.Violate("cold-start/deadlock/"+gname, cs, res.Err, c.Picks)
			return
		}
		for t, oi := range []int{a, b} {
			if want := seq[fmt.Sprint(ops[oi].name, t)]; res.Outs[t] != want {
				r.Violate("cold-start/result-differs-from-sequential/"+gname, cs, fmt.Sprintf("thread %d (%s): %s, alone: %s", t, ops[oi].name, res.Outs[t], want), c.Picks)
				return
			}
		}
	})
	if !st.Complete {
		r.NotExhaustive(gname + ": budget ended")
	}
	return st.Executions
}

var raceRe = regexp.MustCompile(`(?s)WARNING: DATA RACE.*?==================`)
var frameRe = regexp.MustCompile(`\n  ((?:free5gclib|tglib|stgutg)[^\s(]*)\(`)

// c20race runs the free-running pass (a separate binary built with -race) and turns race reports into violations.
func c20race(ctx *Ctx) {
	r := ctx.R
	bin := filepath.Join(report.BuildDir, "bin", "mcheck20race")
	if _, err := os.Stat(bin); err != nil {
		r.HarnessError("race binary missing: " + err.Error())
		return
	}
	for _, g := range []int{2, 8, 64} {
		cctx, cancel := context.WithTimeout(context.Background(), 15*time.Minute) // a horizon (the pass takes seconds), not an oracle on speed
		cmd := exec.CommandContext(cctx, bin, "-g", fmt.Sprint(g), "-rounds", "200")
		cmd.WaitDelay = 5 * time.Second
		cmd.Env = append(os.Environ(), "GORACE=halt_on_error=0")
		cmd.Dir = report.BuildDir
		out, err := cmd.CombinedOutput()
		hung := cctx.Err() != nil
		cancel()
		if hung {
			r.Violate("free-running/does-not-terminate", fmt.Sprintf("free-running pass, %d goroutines", g), "the operations did not finish within 15 minutes (deadlock or livelock between goroutines): "+tail(string(out), 800), nil)
			continue
		}
		reports := raceRe.FindAllString(string(out), -1)
		seen := map[string]bool{}
		for _, rep := range reports {
			fr := frameRe.FindAllStringSubmatch(rep, -1)
			key := "?"
			if len(fr) > 0 {
				key = fr[0][1]
			}
			if !seen[key] {
				seen[key] = true
				r.Violate("race/"+key, fmt.Sprintf("free-running pass, %d goroutines", g), trunc(rep, 1500), nil)
			}
		}
		if m := regexp.MustCompile(`MISMATCH[^\n]*`).FindString(string(out)); m != "" {
			r.Violate("free-running/result-differs-from-sequential", fmt.Sprintf("free-running pass, %d goroutines", g), m, nil)
		}
		if err != nil && len(reports) == 0 && !strings.Contains(string(out), "MISMATCH") {
			r.HarnessError(fmt.Sprintf("race pass G=%d failed: %v: %s", g, err, tail(string(out), 500)))
		}
		r.Set(fmt.Sprintf("race_pass_G%d_reports", g), len(reports))
	}
	// cold passes: one fresh process per operation, whose very first use of the library is that operation on 8 goroutines
	// at once (what is built lazily is built while eight callers need it; an unsynchronised access there is reported by the
	// detector whatever the timing, because nothing orders the goroutines)
	coldReports := 0
	for op := 0; op < C20OpCount(); op++ {
		if C20IsSequence(op) {
			continue
		}
		cctx, cancel := context.WithTimeout(context.Background(), 15*time.Minute)
		cmd := exec.CommandContext(cctx, bin, "-g", "8", "-coldop", fmt.Sprint(op))
		cmd.WaitDelay = 5 * time.Second
		cmd.Env = append(os.Environ(), "GORACE=halt_on_error=0")
		cmd.Dir = report.BuildDir
		out, err := cmd.CombinedOutput()
		hung := cctx.Err() != nil
		cancel()
		cs := fmt.Sprintf("cold pass: operation %d on 8 goroutines as the first use of the library in a fresh process", op)
		if hung {
			r.Violate("free-running/does-not-terminate", cs, tail(string(out), 800), nil)
			continue
		}
		seen := map[string]bool{}
		for _, rep := range raceRe.FindAllString(string(out), -1) {
			coldReports++
			fr := frameRe.FindAllStringSubmatch(rep, -1)
			key := "?"
			if len(fr) > 0 {
				key = fr[0][1]
			}
			if !seen[key] {
				seen[key] = true
				r.Violate("race/"+key, cs, trunc(rep, 1500), nil)
			}
		}
		if m := regexp.MustCompile(`MISMATCH[^\n]*`).FindString(string(out)); m != "" {
			r.Violate("free-running/result-differs-from-sequential", cs, m, nil)
		} else if strings.Contains(string(out), "fatal error:") {
			r.Violate("free-running/fatal-error", cs, tail(string(out), 800), nil)
		} else if err != nil && len(raceRe.FindAllString(string(out), -1)) == 0 {
			r.HarnessError(fmt.Sprintf("cold pass %d failed: %v: %s", op, err, tail(string(out), 500)))
		}
	}
	r.Set("cold_passes", C20OpCount())
	r.Set("cold_pass_race_reports", coldReports)
}
