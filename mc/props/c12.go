package props

import (
	"bytes"
	"fmt"
	"net"
	"time"

	"mc/refnas"
	"mc/refper"
	"stgutg"
)

func init() { register("C12", "exploration", runC12) }

// c12accept builds a PDU SESSION ESTABLISHMENT ACCEPT (TS 24.501 8.3.2) by hand.
type c12accept struct {
	psi, pti    byte
	qosRules    []byte
	ambr        [6]byte
	cause       int    // -1 absent
	addr        []byte // PDU address IE content: type + address (nil = absent)
	rqTimer     int
	snssai      []byte
	alwaysOn    int
	mappedEPS   []byte
	eap         []byte
	qosFlowDesc []byte
	epco        []byte
	dnn         []byte
	trailing    []byte // raw octets appended after the table-order IEs (termination sweeps)
	ssc         byte   // SSC mode (upper half of octet 5; 0 = mode 1)
	later       []byte // well-formed IEs of later releases, after the Release 15 ones
}

func (a c12accept) bytes() []byte {
	b := []byte{0x2e, a.psi, a.pti, 0xc2, 0x11}
	if a.ssc != 0 {
		b[4] = a.ssc<<4 | 0x01
	}
	b = append(b, byte(len(a.qosRules)>>8), byte(len(a.qosRules)))
	b = append(b, a.qosRules...)
	b = append(b, 6)
	b = append(b, a.ambr[:]...)
	tlv := func(iei byte, v []byte) { b = append(append(b, iei, byte(len(v))), v...) }
	tlve := func(iei byte, v []byte) { b = append(append(b, iei, byte(len(v)>>8), byte(len(v))), v...) }
	if a.cause >= 0 {
		b = append(b, 0x59, byte(a.cause))
	}
	if a.addr != nil {
		tlv(0x29, a.addr)
	}
	if a.rqTimer >= 0 {
		b = append(b, 0x56, byte(a.rqTimer))
	}
	if a.snssai != nil {
		tlv(0x22, a.snssai)
	}
	if a.alwaysOn >= 0 {
		b = append(b, 0x80|byte(a.alwaysOn))
	}
	if a.mappedEPS != nil {
		tlve(0x75, a.mappedEPS)
	}
	if a.eap != nil {
		tlve(0x78, a.eap)
	}
	if a.qosFlowDesc != nil {
		tlve(0x79, a.qosFlowDesc)
	}
	if a.epco != nil {
		tlve(0x7b, a.epco)
	}
	if a.dnn != nil {
		tlv(0x25, a.dnn)
	}
	b = append(b, a.later...)
	return append(b, a.trailing...)
}

// c12wrap puts a 5GSM message into DL NAS TRANSPORT (8.2.11) and protects it (header type 2, NEA0: the emulator
// reads the container without deciphering) the way the AMF sends it inside the NGAP PDUSessionNAS-PDU.
func c12wrap(gsm []byte, psi byte, withPSI bool) []byte {
	dl := []byte{0x7e, 0x00, 0x68, 0x01, byte(len(gsm) >> 8), byte(len(gsm))}
	dl = append(dl, gsm...)
	if withPSI {
		dl = append(dl, 0x12, psi)
	}
	sc := refnas.SecCtx{NIA: 2, NEA: 0, KInt: a16(hx("2bd6459f82c5b300952c49104881ff48"))}
	return refnas.Protect(dl, 2, sc, 3, refnas.DirDownlink)
}

func c12base() c12accept {
	return c12accept{psi: 1, pti: 0, qosRules: hx("010006310131010109"), ambr: [6]byte{6, 0, 100, 6, 0, 100}, cause: -1,
		addr: []byte{1, 10, 45, 0, 2}, rqTimer: -1, alwaysOn: -1}
}

var c12heldUE, c12heldUPF held // addresses reported by the previous extraction, re-examined after the next one

func runC12(ctx *Ctx) {
	r := ctx.R
	s, err := loadSchema()
	if err != nil {
		r.HarnessError(err.Error())
		return
	}
	codec := &refper.Codec{S: s}
	addrs := [][]byte{{10, 45, 0, 2}, {0, 0, 0, 0}, {255, 255, 255, 255}, {10, 0, 41, 0x29}, {0x29, 0x59, 0x8b, 0x7b}, {0x22, 0x25, 0x79, 0x75}}
	maxQ := 1000
	if ctx.Thorough {
		maxQ = 4000
	}
	r.Rule = fmt.Sprintf("PDU SESSION ESTABLISHMENT ACCEPT built by hand per TS 24.501 8.3.2.1 inside a protected DL NAS TRANSPORT: QoS-rules length every value 0..%d; all 2^9 subsets of the optional IEs in table order (cause, RQ timer, S-NSSAI, always-on, mapped EPS, EAP, QoS flow descriptions, ePCO, DNN) with the PDU address present; IE lengths {min..max alphabets}; 6 addresses (incl. octets equal to IEIs 29 59 8b 7b 22 25 79 75); cause values, AMBR units, PSI/PTI, SSC modes 1..3, IEs of later releases (17, 18, 77, 66, 1F) behind the Release 15 ones; the argument is a window into a larger buffer that must stay untouched; "+
		"setup-request transfers encoded by the independent refper: with/without aggregate maximum bit rate, bit rates {0, 2^k-1, 2^k, 4e12} for all k<=42 plus values whose octets spell an IE header of the transfer (00 8b 00 ...), TEID/UPF alphabets, 1..3 and 20..24, 42..45, 64 QoS flows (lists around 128 and 256 octets), optional IEs of the transfer; termination: every octet string of length <=4 over 16 symbols as the optional-IE part, every prefix and every single-octet substitution of 3 valid messages (both extractors), in shard processes under a %v watchdog; "+
		"oracle: returned address/TEID/UPF == encoded ones; the call returns or panics (a panic on a malformed input is termination); distinct = distinct inputs", maxQ, 10*time.Second)
	r.Assume("the Accept layout is typed from TS 24.501 8.3.2.1 (Release 15 IEIs)", "panics on malformed input count as termination for this property (C14/C19 cover crash behaviour)")
	if !ctx.IsChild() {
		ctx.Fork(Workers())
		r.Sample(fmt.Sprintf("accept %x wrapped -> DecodePDUSessionNASPDU", c12base().bytes()))
		return
	}
	wd := startWatchdog(r, 10*time.Second, "extract/does-not-terminate")
	l := r.Local()
	item := 0
	nas := func(a c12accept, label string, wellFormed bool) {
		item++
		if !ctx.Mine(item) {
			return
		}
		if item%512 < ctx.NShards {
			l.Merge()
		}
		in := c12wrap(a.bytes(), a.psi, item%2 == 0)
		// the argument is a window into a larger receive buffer: what lies behind it, and the argument itself, are the caller's
		whole := append(append([]byte{}, in...), bytes.Repeat([]byte{0x5a}, 16)...)
		in = whole[:len(in):len(whole)]
		keep := append([]byte{}, whole...)
		var ip net.IP
		wd.enter("DecodePDUSessionNASPDU " + fmt.Sprintf("%x", in))
		perr := recoverErr(func() { ip = stgutg.DecodePDUSessionNASPDU(in) })
		wd.leave()
		if wellFormed && !bytes.Equal(whole, keep) {
			r.Violate("extract/ue-address/writes-into-the-caller's-buffer", label, fmt.Sprintf("buffer before %x after %x", keep, whole), nil)
		}
		l.Case(label+fmt.Sprintf("%x", in[len(in)-min(len(in), 24):]), true, ip.String())
		if !wellFormed {
			return
		}
		if perr != nil {
			r.Violate("extract/ue-address/panic", label, perr.Error()+fmt.Sprintf(" on %x", in), nil)
			return
		}
		if a.addr != nil && !bytes.Equal(ip, a.addr[1:5]) {
			r.Violate("extract/ue-address/value", label, fmt.Sprintf("returned %v, encoded %v; message %x", ip, a.addr[1:5], in), nil)
		}
		// the address reported for the previous session is still that address after this extraction
		c12heldUE.next(r, "extract/ue-address/changed-by-a-later-extraction", ip, label)
	}
	// QoS rules length sweep x addresses
	for q := 0; q <= maxQ; q++ {
		a := c12base()
		a.qosRules = pattern(2+q%3, q)
		if q%7 == 0 {
			a.qosRules = bytes.Repeat([]byte{0x29}, q)
		}
		a.addr = append([]byte{1}, addrs[q%len(addrs)]...)
		nas(a, fmt.Sprintf("qosRulesLen=%d ", q), true)
	}
	// optional IE subsets in table order
	for sub := 0; sub < 1<<9; sub++ {
		for ai, ad := range addrs {
			if ai > 1 && sub%8 != 0 {
				continue
			}
			a := c12base()
			a.addr = append([]byte{1}, ad...)
			if sub&1 != 0 {
				a.cause = 0x32
			}
			if sub&2 != 0 {
				a.rqTimer = 0x29
			}
			if sub&4 != 0 {
				a.snssai = []byte{1, 0x29, 3, 0x59}
			}
			if sub&8 != 0 {
				a.alwaysOn = 1
			}
			if sub&16 != 0 {
				a.mappedEPS = pattern(3, 20)
			}
			if sub&32 != 0 {
				a.eap = pattern(4, 300)
			}
			if sub&64 != 0 {
				a.qosFlowDesc = hx("012001290101")
			}
			if sub&128 != 0 {
				a.epco = hx("8000290500")
			}
			if sub&256 != 0 {
				a.dnn = append([]byte{8}, []byte("internet")...)
			}
			nas(a, fmt.Sprintf("optional-subset=%09b addr=%v ", sub, ad), true)
		}
	}
	// single-dimension alphabets
	for _, c := range []int{0x1a, 0x29, 0x32, 0x33, 0x59, 0xff, 0} {
		a := c12base()
		a.cause = c
		nas(a, fmt.Sprintf("cause=%#x ", c), true)
	}
	for _, n := range []int{1, 4, 5, 8} {
		a := c12base()
		a.cause = 0x29
		a.snssai = bytes.Repeat([]byte{0x29}, n)
		nas(a, fmt.Sprintf("snssaiLen=%d ", n), true)
	}
	for n := 1; n <= 100; n++ {
		a := c12base()
		a.dnn = pattern(2, n)
		nas(a, fmt.Sprintf("dnnLen=%d ", n), true)
	}
	for _, n := range []int{0, 1, 255, 256, 4000} {
		a := c12base()
		a.qosFlowDesc = pattern(2, n)
		a.epco = pattern(3, n/2)
		nas(a, fmt.Sprintf("qosFlowDescLen=%d ", n), true)
	}
	for u := 0; u < 26; u++ {
		a := c12base()
		a.ambr = [6]byte{byte(u), 0xff, 0xff, byte(25 - u), 0x29, 0x59}
		nas(a, fmt.Sprintf("ambrUnit=%d ", u), true)
	}
	for _, p := range []byte{1, 5, 15, 0x29, 255} {
		a := c12base()
		a.psi, a.pti = p, p
		nas(a, fmt.Sprintf("psi=pti=%d ", p), true)
	}
	// SSC modes 1..3 (octet 5, upper half) with and without the 5GSM cause in front of the address
	for ssc := byte(1); ssc <= 3; ssc++ {
		for _, cause := range []int{-1, 0x32} {
			for _, ad := range addrs {
				a := c12base()
				a.ssc, a.cause, a.addr = ssc, cause, append([]byte{1}, ad...)
				nas(a, fmt.Sprintf("sscMode=%d cause=%d addr=%v ", ssc, cause, ad), true)
			}
		}
	}
	// IEs of later releases behind the Release 15 ones (an SMF of Release 16/17): 5GSM network feature support (17),
	// serving PLMN rate control (18), ATSSS container (77), IP header compression configuration (66), Ethernet header
	// compression configuration (1F), with contents that look like a PDU address IE; each alone, all together, and
	// behind each subset of {DNN, ePCO}
	laterIEs := [][]byte{hx("170129"), hx("18022905"), hx("1802010a"), hx("770003290501"), hx("66052905010a0b"), hx("1f0129"), hx("180200290501c0a80001")[:4]}
	var all []byte
	for _, ie := range laterIEs {
		all = append(all, ie...)
	}
	for li, ie := range append(laterIEs, all) {
		for sub := 0; sub < 4; sub++ {
			a := c12base()
			a.addr = append([]byte{1}, addrs[(li+sub)%len(addrs)]...)
			if sub&1 != 0 {
				a.dnn = append([]byte{8}, []byte("internet")...)
			}
			if sub&2 != 0 {
				a.epco = hx("8000290500")
			}
			a.later = ie
			nas(a, fmt.Sprintf("later-release IEs %x dnn=%v epco=%v ", ie, sub&1 != 0, sub&2 != 0), true)
		}
	}
	// transfers
	tr := func(n *refper.Node, teid, upf []byte, label string, wellFormed bool, raw []byte) {
		item++
		if !ctx.Mine(item) {
			return
		}
		in := raw
		if n != nil {
			b, err := codec.Encode("PDUSessionResourceSetupRequestTransfer", "valueExt", n)
			if err != nil {
				r.HarnessError("reference cannot encode transfer: " + err.Error())
				return
			}
			in = b
		}
		var gotTeid uint32
		var gotIP net.IP
		whole := append(append([]byte{}, in...), bytes.Repeat([]byte{0x5a}, 16)...)
		in = whole[:len(in):len(whole)]
		keep := append([]byte{}, whole...)
		wd.enter("DecodePDUSessionResourceSetupRequestTransfer " + fmt.Sprintf("%x", in))
		perr := recoverErr(func() { gotTeid, gotIP = stgutg.DecodePDUSessionResourceSetupRequestTransfer(in) })
		wd.leave()
		if wellFormed && !bytes.Equal(whole, keep) {
			r.Violate("extract/transfer/writes-into-the-caller's-buffer", label, fmt.Sprintf("buffer before %x after %x", keep, whole), nil)
		}
		l.Case(label+fmt.Sprintf("%x", in), true, fmt.Sprint(gotTeid, gotIP))
		if !wellFormed {
			return
		}
		if perr != nil {
			r.Violate("extract/transfer/panic", label, perr.Error()+fmt.Sprintf(" on %x", in), nil)
			return
		}
		want := uint32(teid[0])<<24 | uint32(teid[1])<<16 | uint32(teid[2])<<8 | uint32(teid[3])
		if gotTeid != want || !bytes.Equal(gotIP, upf) {
			r.Violate("extract/transfer/value", label, fmt.Sprintf("returned TEID %#x UPF %v, encoded %#x %v; transfer %x", gotTeid, gotIP, want, upf, in), nil)
		}
		c12heldUPF.next(r, "extract/transfer/upf-address-changed-by-a-later-extraction", gotIP, label)
	}
	mkTransfer := func(ambr []int64, teid, upf []byte, flows int, extra int) *refper.Node {
		ie := func(id int64, crit int64, alt string, v *refper.Node) *refper.Node {
			return refper.Seq("Id", refper.Seq("Value", refper.Int(id)), "Criticality", refper.Seq("Value", refper.Enum(crit)), "Value", refper.Choice(alt, v))
		}
		var ies []*refper.Node
		if ambr != nil {
			ies = append(ies, ie(130, 0, "PDUSessionAggregateMaximumBitRate", refper.Seq("PDUSessionAggregateMaximumBitRateDL", refper.Seq("Value", refper.Int(ambr[0])), "PDUSessionAggregateMaximumBitRateUL", refper.Seq("Value", refper.Int(ambr[1])))))
		}
		tunnel := refper.Choice("GTPTunnel", refper.Seq("TransportLayerAddress", refper.Seq("Value", refper.Bits(upf, 32)), "GTPTEID", refper.Seq("Value", refper.Octets(teid))))
		ies = append(ies, ie(139, 0, "ULNGUUPTNLInformation", tunnel))
		if extra&1 != 0 {
			ies = append(ies, ie(127, 0, "DataForwardingNotPossible", refper.Seq("Value", refper.Enum(0))))
		}
		ies = append(ies, ie(134, 0, "PDUSessionType", refper.Seq("Value", refper.Enum(0))))
		if extra&2 != 0 {
			ies = append(ies, ie(129, 0, "NetworkInstance", refper.Seq("Value", refper.Int(0x29))))
		}
		fl := &refper.Node{Kind: "list"}
		for i := 0; i < flows; i++ {
			q := refper.Seq("QosCharacteristics", refper.Choice("NonDynamic5QI", refper.Seq("FiveQI", refper.Seq("Value", refper.Int(9)))),
				"AllocationAndRetentionPriority", refper.Seq("PriorityLevelARP", refper.Seq("Value", refper.Int(8)), "PreEmptionCapability", refper.Seq("Value", refper.Enum(0)), "PreEmptionVulnerability", refper.Seq("Value", refper.Enum(0))))
			fl.Kids = append(fl.Kids, refper.Seq("QosFlowIdentifier", refper.Seq("Value", refper.Int(int64(i+1))), "QosFlowLevelQosParameters", q))
		}
		ies = append(ies, ie(136, 0, "QosFlowSetupRequestList", refper.Seq("List", fl)))
		return refper.Seq("ProtocolIEs", refper.Seq("List", refper.List(ies...)))
	}
	teids := [][]byte{{0, 0, 0, 1}, {0, 0, 0, 0}, {255, 255, 255, 255}, {0, 0, 0, 0x29}, {0, 0x8b, 0, 0x8b}}
	rates := []int64{0, 4000000000000}
	for k := uint(0); k <= 42; k++ {
		rates = append(rates, 1<<k-1, 1<<k)
	}
	// values whose octets look like the header of an information element of the transfer (id 139 = 0x8b, 130, 134, 136, 129
	// followed by a criticality octet): anything that finds the tunnel IE by searching instead of walking the list sees these first
	for _, id := range []int64{0x8b, 0x82, 0x86, 0x88, 0x81} {
		rates = append(rates, id, id<<8, id<<16, id<<24, id<<8|0x01000000, id<<24|0x010000000a00, id<<16|id, id<<32|0x0a)
	}
	for _, rt := range rates {
		if rt > 4000000000000 {
			continue
		}
		for ti, te := range teids {
			up := addrs[ti%len(addrs)]
			tr(mkTransfer([]int64{rt, 4000000000000 - rt}, te, up, 1, 0), te, up, fmt.Sprintf("transfer ambr=%d teid=%x upf=%v ", rt, te, up), true, nil)
		}
	}
	for _, te := range teids {
		for _, up := range addrs {
			// (1..3 flows, and QoS flow lists just below and above 128 and 256 octets, and the largest list of 64 flows)
			for _, flows := range []int{1, 2, 3, 20, 21, 22, 23, 24, 42, 43, 44, 45, 64} {
				for extra := 0; extra < 4; extra++ {
					if flows > 3 && (extra == 1 || extra == 2) {
						continue
					}
					tr(mkTransfer(nil, te, up, flows, extra), te, up, fmt.Sprintf("transfer no-ambr teid=%x upf=%v flows=%d extra=%d ", te, up, flows, extra), true, nil)
					tr(mkTransfer([]int64{1000, 2000}, te, up, flows, extra), te, up, fmt.Sprintf("transfer ambr teid=%x upf=%v flows=%d extra=%d ", te, up, flows, extra), true, nil)
				}
			}
		}
	}
	// termination sweeps (malformed inputs: only "returns or panics" is demanded)
	syms := []byte{0x00, 0x01, 0x08, 0x17, 0x18, 0x1f, 0x22, 0x29, 0x59, 0x7b, 0x80, 0xff, 0xfb, 0xfc, 0xfd, 0xfe}
	var gen func(cur []byte, n int)
	gen = func(cur []byte, n int) {
		a := c12base()
		a.addr = nil
		a.trailing = cur
		nas(a, fmt.Sprintf("tail=%x ", cur), false)
		if n == 0 {
			return
		}
		for _, s := range syms {
			gen(append(append([]byte{}, cur...), s), n-1)
		}
	}
	gen(nil, 4)
	valid := [][]byte{c12wrap(c12base().bytes(), 1, true)}
	a2 := c12base()
	a2.cause, a2.dnn, a2.qosFlowDesc = 0x32, []byte("\x08internet"), hx("0120")
	valid = append(valid, c12wrap(a2.bytes(), 1, false))
	for _, v := range valid {
		for n := 0; n < len(v); n++ {
			item++
			if ctx.Mine(item) {
				in := v[:n]
				wd.enter(fmt.Sprintf("DecodePDUSessionNASPDU prefix %x", in))
				recoverErr(func() { stgutg.DecodePDUSessionNASPDU(in) })
				wd.leave()
				l.Case(fmt.Sprintf("prefix %x", in), true, "")
			}
		}
		for pos := range v {
			for d := 1; d < 256; d++ {
				item++
				if ctx.Mine(item) {
					in := append([]byte{}, v...)
					in[pos] ^= byte(d)
					wd.enter(fmt.Sprintf("DecodePDUSessionNASPDU %x", in))
					recoverErr(func() { stgutg.DecodePDUSessionNASPDU(in) })
					wd.leave()
					l.Case(fmt.Sprintf("subst %d %d", pos, d), true, "")
				}
			}
		}
	}
	tb, _ := codec.Encode("PDUSessionResourceSetupRequestTransfer", "valueExt", mkTransfer([]int64{1000, 2000}, teids[0], addrs[0], 1, 0))
	for n := 0; n < len(tb); n++ {
		tr(nil, nil, nil, "transfer-prefix ", false, tb[:n])
	}
	for pos := range tb {
		for d := 1; d < 256; d++ {
			in := append([]byte{}, tb...)
			in[pos] ^= byte(d)
			tr(nil, nil, nil, "transfer-subst ", false, in)
		}
	}
	l.Merge()
}
