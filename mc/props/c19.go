package props

import (
	"bytes"
	"encoding/hex"
	"fmt"
	"regexp"
	"strconv"
	"strings"
	"sync"
	"time"

	"mc/explore"
	"mc/n2"
	"mc/refamf"
	"mc/refper"
	"mc/report"
)

func init() { register("C19", "fault_enumeration", runC19) }

type sysEvent struct {
	call string // recvmsg | sendmsg | exit
	data []byte
	ret  int
	errn string
}

var straceRe = regexp.MustCompile(`^\d+\s+(recvmsg|sendmsg)\(3, .*?iov_base="((?:\\x[0-9a-f]{2})*)"(?:\.\.\.)?.*\)\s+=\s+(-?\d+)(?:\s+(E[A-Z]+))?`)
var straceErrRe = regexp.MustCompile(`^\d+\s+(recvmsg|sendmsg)\(3, .*\)\s+=\s+(-?\d+)(?:\s+(E[A-Z]+))?`)
var straceExitRe = regexp.MustCompile(`^\d+\s+exit_group\((\d+)\)`)

// parseStrace extracts the emulator's I/O history on the N2 descriptor (ground truth of what it sent and consumed).
func parseStrace(log string) []sysEvent {
	var out []sysEvent
	for _, line := range strings.Split(log, "\n") {
		if m := straceRe.FindStringSubmatch(line); m != nil {
			b, _ := hex.DecodeString(strings.ReplaceAll(m[2], `\x`, ""))
			ret, _ := strconv.Atoi(m[3])
			if ret >= 0 && ret < len(b) {
				b = b[:ret]
			}
			out = append(out, sysEvent{call: m[1], data: b, ret: ret, errn: m[4]})
		} else if m := straceErrRe.FindStringSubmatch(line); m != nil {
			ret, _ := strconv.Atoi(m[2])
			out = append(out, sysEvent{call: m[1], ret: ret, errn: m[3]})
		} else if m := straceExitRe.FindStringSubmatch(line); m != nil {
			c, _ := strconv.Atoi(m[1])
			out = append(out, sysEvent{call: "exit", ret: c})
		}
	}
	return out
}

func runC19(ctx *Ctx) {
	r := ctx.R
	codec := getCodec(r)
	if codec == nil {
		return
	}
	// every procedure kind also appears as the LAST procedure of some vector: a fault swallowed at the very end of a
	// conversation is not masked by the next procedure's write failing
	vectors := [][5]int{{1, 1, 1, 1, 1}, {2, 2, 2, 2, 2}, {2, 1, 0, 1, 2}, {2, 2, 0, 0, 0}, {2, 0, 0, 0, 0}, {1, 1, 1, 0, 0}, {1, 1, 0, 1, 0}, {1, 0, 0, 0, 1}}
	if ctx.Thorough {
		vectors = append(vectors, [5]int{3, 3, 3, 3, 3}, [5]int{3, 1, 1, 0, 2}, [5]int{3, 0, 0, 0, 0}, [5]int{2, 2, 2, 0, 0}, [5]int{2, 2, 0, 2, 0})
	}
	kinds := []string{"close", "garbage-ff", "garbage-00", "truncated", "garbage-2047", "garbage-2048", "garbage-4096", "bad-choice", "bad-length", "bad-count", "bad-padding", "close-after"}
	_, acfg := n2config(explore.Replay(nil))
	type job struct {
		v    [5]int
		k    int
		kind string
		imsi string // "" = the default
	}
	var jobs []job
	faultFree := map[[5]int]n2.Result{}
	// other subscribers (RAN-UE-NGAP-IDs 255/256 and 9999/0 for the two UEs: anything derived from a UE's identity - an exit
	// status, an index - takes other values there): close and short garbage at every point of one vector
	type imsiRun struct {
		imsi string
		res  n2.Result
	}
	var imsiRuns []imsiRun
	imsiVec := [5]int{2, 1, 0, 1, 2}
	for _, imsi := range []string{"001010000000255", "001010000009999", "001010000000511"} {
		emu := n2.DefaultEmuConfig()
		emu.IMSI = imsi
		emu.Reg, emu.Pdu, emu.Svc, emu.Rel, emu.Dereg = imsiVec[0], imsiVec[1], imsiVec[2], imsiVec[3], imsiVec[4]
		ac := acfg
		ac.IMSI = imsi
		a := refamf.New(ac, refamf.DefaultChoices(), codec)
		res := n2.Run(n2.Opts{YAML: emu.YAML(), AMF: a, Strace: true, Horizon: 60 * time.Second})
		if res.HarnessErr != "" || len(a.Viol) > 0 || res.ExitCode != 0 {
			r.Violate("fault-free-baseline", fmt.Sprintf("counts=%v imsi=%s", imsiVec, imsi), fmt.Sprintf("the fault-free conversation does not complete: %v %v exit %d (see C02)", res.HarnessErr, a.Viol, res.ExitCode), nil)
			continue
		}
		imsiRuns = append(imsiRuns, imsiRun{imsi, res})
		for k := 1; k <= len(res.Down); k++ {
			for _, kind := range []string{"close", "garbage-ff", "truncated"} {
				jobs = append(jobs, job{imsiVec, k, kind, imsi})
			}
		}
	}
	origOf := func(j job) []byte {
		if j.imsi != "" {
			for _, ir := range imsiRuns {
				if ir.imsi == j.imsi {
					return ir.res.Down[j.k-1]
				}
			}
		}
		return faultFree[j.v].Down[j.k-1]
	}
	for vi, v := range vectors {
		emu := n2.DefaultEmuConfig()
		emu.Reg, emu.Pdu, emu.Svc, emu.Rel, emu.Dereg = v[0], v[1], v[2], v[3], v[4]
		a := refamf.New(acfg, refamf.DefaultChoices(), codec)
		res := n2.Run(n2.Opts{YAML: emu.YAML(), AMF: a, Strace: true, Horizon: 60 * time.Second})
		if res.HarnessErr != "" || len(a.Viol) > 0 || res.ExitCode != 0 {
			r.Violate("fault-free-baseline", fmt.Sprintf("counts=%v", v), fmt.Sprintf("the fault-free conversation does not complete: %v %v exit %d (see C02)", res.HarnessErr, a.Viol, res.ExitCode), nil)
			continue
		}
		if len(parseStrace(res.StraceLog)) < len(res.Up) {
			r.HarnessError("strace monitor did not record the emulator's I/O: " + tail(res.StraceLog, 300))
			return
		}
		faultFree[v] = res
		for k := 1; k <= len(res.Down); k++ {
			for _, kind := range kinds {
				jobs = append(jobs, job{v, k, kind, ""})
			}
			if vi == 0 {
				// the header of every other message kind in front of garbage (a reader that classifies a message by its first
				// octets before decoding it): the 52 procedure codes the pinned NGAP version defines, on the first vector (a
				// message with an unknown procedure code is a PDU with an absent value for the library's decoder, not
				// undecodable octets: outside this property)
				for pc := 0; pc < 52; pc++ {
					jobs = append(jobs, job{v, k, fmt.Sprintf("other-header-%02x", pc), ""})
				}
			}
		}
	}
	r.Set("fault_points", len(jobs))
	var hmu sync.Mutex
	hist := map[string]int{} // "<kind> -> <outcome class>": how often each kind was consumed / never consumed / out of scope
	ParallelFor(r, len(jobs), func(l *report.Local, i int) {
		j := jobs[i]
		emu := n2.DefaultEmuConfig()
		emu.Reg, emu.Pdu, emu.Svc, emu.Rel, emu.Dereg = j.v[0], j.v[1], j.v[2], j.v[3], j.v[4]
		ac := acfg
		if j.imsi != "" {
			emu.IMSI, ac.IMSI = j.imsi, j.imsi
		}
		a := refamf.New(ac, refamf.DefaultChoices(), codec)
		orig := origOf(j)
		res := n2.Run(n2.Opts{YAML: emu.YAML(), AMF: a, Strace: true, Fault: &n2.Fault{K: j.k, Kind: j.kind, Data: c19faulty(j.kind, orig)}, Horizon: 30 * time.Second, KeepGoing: true})
		cs := fmt.Sprintf("counts=%v fault at downlink message %d (%s): %s", j.v, j.k, c19msgName(codec, orig), j.kind)
		if j.imsi != "" {
			cs += " imsi=" + j.imsi
		}
		out := c19judge(r, codec, cs, j.kind, orig, res)
		l.Case(cs, true, out)
		hk := j.kind
		if strings.HasPrefix(hk, "other-header-") {
			hk = "other-header-*"
		}
		hmu.Lock()
		hist[hk+" -> "+out]++
		hmu.Unlock()
	})
	// the NG Setup procedure's other branch: the AMF refuses the first request with an NG SETUP FAILURE carrying Time To
	// Wait (TS 38.413 8.7.1.3), and the reply to whatever the emulator sends next is the fault
	ngSetupFailure := hx("4015000d000002000f400140006b400100") // cause misc/control-processing-overload, Time To Wait 1 s
	if t, err := codec.Decode("NGAPPDU", refper.PDUTag, ngSetupFailure); err != nil || c19msgName(codec, ngSetupFailure) != "NGSetupFailure" {
		r.HarnessError(fmt.Sprintf("the scripted NG SETUP FAILURE is not one: %v %v", err, t))
	} else if ff, ok := faultFree[vectors[0]]; ok {
		ParallelFor(r, len(kinds), func(l *report.Local, i int) {
			kind := kinds[i]
			emu := n2.DefaultEmuConfig()
			emu.Reg, emu.Pdu, emu.Svc, emu.Rel, emu.Dereg = 1, 1, 1, 1, 1
			a := refamf.New(acfg, refamf.DefaultChoices(), codec)
			res := n2.Run(n2.Opts{YAML: emu.YAML(), AMF: a, Strace: true, RefuseFirst: ngSetupFailure, Fault: &n2.Fault{K: 2, Kind: kind, Data: c19faulty(kind, ff.Down[0])}, Horizon: 30 * time.Second, KeepGoing: true})
			cs := fmt.Sprintf("NG SETUP FAILURE with Time To Wait, then the fault as the next reply: %s", kind)
			out := c19judge(r, codec, cs, kind, ff.Down[0], res)
			l.Case(cs, true, out)
			hmu.Lock()
			hist["after NG SETUP FAILURE: "+kind+" -> "+out]++
			hmu.Unlock()
		})
	}
	r.Set("outcomes_by_fault_kind", hist)
	r.Sample("counts=[1 1 1 1 1] fault at downlink message 3 (DownlinkNASTransport): close -> the emulator's recvmsg returns 0; exit status must be non-zero, no banner, no sendmsg afterwards")
	r.Sample("counts=[2 2 2 2 2] fault at downlink message 16 (PDUSessionResourceReleaseCommand): garbage-ff -> consumed (if at all) by a later deregistration read")
	// real-time fidelity of the time shim: replay fixed conversations with the real sleeps and require identical histories
	if ctx.Thorough {
		for _, v := range [][5]int{{1, 1, 1, 1, 1}, {2, 1, 0, 1, 2}} {
			emu := n2.DefaultEmuConfig()
			emu.Reg, emu.Pdu, emu.Svc, emu.Rel, emu.Dereg = v[0], v[1], v[2], v[3], v[4]
			a := refamf.New(acfg, refamf.DefaultChoices(), codec)
			res := n2.Run(n2.Opts{YAML: emu.YAML(), AMF: a, RealTime: true, Horizon: 120 * time.Second})
			ff := faultFree[v]
			same := len(res.Up) == len(ff.Up)
			for i := 0; same && i < len(res.Up); i++ {
				same = bytes.Equal(res.Up[i], ff.Up[i])
			}
			if !same || res.ExitCode != 0 {
				r.HarnessError(fmt.Sprintf("time shim is not faithful: counts=%v real-time run has %d uplink messages (exit %d), shimmed run %d", v, len(res.Up), res.ExitCode, len(ff.Up)))
			}
			r.Set(fmt.Sprintf("traces_validated_realtime_%v", v), same)
		}
	}
	r.Rule = fmt.Sprintf("for %d count vectors, every downlink message index k of the fault-free conversation (K = 6..19) x {AMF closes instead of sending message k; sends ff ff ff; sends 00; sends the first half of the message; sends 2047 / 2048 / 4096 octets of ff (just below, at and above the emulator's read buffer); sends the message with its PDU choice index destroyed; with its outer length determinant pointing beyond the end; with its IE count 256 too large; with non-zero padding bits; sends message k intact and closes right behind it (the emulator's next write fails)} + on the first vector the header of each of the 52 defined procedure codes in front of garbage + close / ff ff ff / truncation for three other subscribers (RAN-UE-NGAP-IDs 255/256, 9999/0, 511/512) = %d fault points, plus each fault kind as the reply that follows an NG SETUP FAILURE with Time To Wait, each run as the real process under strace (sendmsg/recvmsg on the N2 descriptor = ground truth of what the emulator consumed and sent); "+
		"oracle: the process terminates within a 30 s horizon; if a recvmsg returned 0 / an error / the faulty octets, or a sendmsg failed (the emulator observed the fault), then exit status != 0, no completion banner and no sendmsg afterwards; exit 0 only if the faulty message was never consumed; the message after Registration Complete is exempt for the garbage kinds (deliberately ignored); faulty octets that the reference codec still decodes are out of scope; non-trivial = all; distinct = (vector, k, kind)", len(vectors), len(jobs))
	r.Assume("strace -f is the monitor (ptrace available in the sandbox)", "test mode reports no sessions (only traffic mode prints them): 'reports a session it did not obtain' has nothing to observe here",
		"time shim as in C01; thorough replays two conversations with real sleeps and requires byte-identical uplink histories")
}

// c19faulty: the octets the AMF sends instead of message orig for a fault kind (nil for "close"). All are meant to be
// undecodable as NGAP (checked with the reference codec before a verdict): short garbage, garbage just below, at and
// above the emulator's 2048-octet read buffer, half a message, and a valid message with its PDU choice index or its
// outer length determinant destroyed.
func c19faulty(kind string, orig []byte) []byte {
	fill := func(n int) []byte { return bytes.Repeat([]byte{0xff}, n) }
	if strings.HasPrefix(kind, "other-header-") {
		var pc int
		fmt.Sscanf(kind, "other-header-%02x", &pc)
		return []byte{0x00, byte(pc), 0x40, 0x07, 0xff, 0xff, 0xff}
	}
	switch kind {
	case "garbage-ff":
		return fill(3)
	case "garbage-00":
		return []byte{0x00}
	case "truncated":
		return append([]byte{}, orig[:len(orig)/2]...)
	case "garbage-2047":
		return fill(2047)
	case "garbage-2048":
		return fill(2048)
	case "garbage-4096":
		return fill(4096)
	case "bad-padding":
		// a well-formed message whose padding bits in front of the first length determinant are not zero (X.691 10.1:
		// padding bits are zero; the library's decoder refuses them)
		b := append([]byte{}, orig...)
		if len(b) > 2 {
			b[2] |= 0x3f
		}
		return b
	case "bad-choice":
		b := append([]byte{}, orig...)
		b[0] = 0x60 // NGAP-PDU choice index 3 of 0..2
		return b
	case "bad-count":
		// the 16-bit number of IEs made 256 too large (the message then claims IEs that are not there)
		b := append([]byte{}, orig...)
		p := 4 // choice, procedure code, criticality, one-octet length
		if len(b) > 3 && b[3]&0x80 != 0 {
			p = 5
		}
		if len(b) > p+2 {
			b[p+1] ^= 0x01
		}
		return b
	case "bad-length":
		b := append([]byte{}, orig...)
		if len(b) > 3 {
			b[3] = 0x7f // outer open-type length beyond what follows (messages here are shorter than 127+4 octets or use the two-octet form)
			if orig[3]&0x80 != 0 && len(b) > 4 {
				b[3], b[4] = 0xbf, 0xff
			}
		}
		return b
	}
	return nil
}

func c19msgName(c *refper.Codec, b []byte) string {
	t, err := c.Decode("NGAPPDU", refper.PDUTag, b)
	if err != nil || len(t.Kids) == 0 {
		return "?"
	}
	if v := t.Kids[0].Get("Value"); v != nil && len(v.Names) == 1 {
		return v.Names[0]
	}
	return "?"
}

func c19judge(r *report.Report, codec *refper.Codec, cs, kind string, orig []byte, res n2.Result) string {
	if res.HarnessErr != "" {
		r.HarnessError(res.HarnessErr)
		return "harness"
	}
	if res.Hung {
		r.Violate("fail-stop/hang/"+kind, cs, fmt.Sprintf("the emulator did not terminate within the horizon (%d uplink messages seen); output tail: %s", len(res.Up), tail(res.Stdout, 300)), nil)
		return "hang"
	}
	faulty := c19faulty(kind, orig)
	if faulty != nil {
		if _, err := codec.Decode("NGAPPDU", refper.PDUTag, faulty); err == nil {
			return "out-of-scope:" + kind + "-still-decodes"
		}
	}
	ev := parseStrace(res.StraceLog)
	observedAt := -1
	for i, e := range ev {
		switch {
		case e.call == "recvmsg" && (e.ret <= 0):
			if (kind == "close" || kind == "close-after") && e.errn != "EAGAIN" && e.errn != "EINTR" {
				observedAt = i
			}
		case e.call == "recvmsg" && faulty != nil && len(e.data) > 0 && (bytes.Equal(e.data, faulty) || (len(e.data) >= 2048 && bytes.HasPrefix(faulty, e.data))):
			// (a datagram longer than the emulator's 2048-octet buffer is cut to the buffer size by the read)
			observedAt = i
		case e.call == "sendmsg" && e.ret < 0 && e.errn != "EAGAIN" && e.errn != "EINTR" && e.errn != "EBADF":
			observedAt = i
		}
		if observedAt >= 0 {
			break
		}
	}
	banner := strings.Contains(res.Stdout, ">> All tests finished")
	if observedAt < 0 {
		// never consumed: completing normally is allowed
		if res.ExitCode == 0 && banner {
			return "fault-never-observed:completed"
		}
		return fmt.Sprintf("fault-never-observed:exit=%d", res.ExitCode)
	}
	exempt := kind != "close" && kind != "close-after" && c19isAfterRegistrationComplete(codec, orig)
	out := fmt.Sprintf("observed:exit=%d", res.ExitCode)
	if exempt {
		return out + ":exempt"
	}
	if res.ExitCode == 0 {
		r.Violate("fail-stop/exit-status-zero/"+kind+"/"+c19msgName(codec, orig), cs, fmt.Sprintf("the emulator consumed the fault (%s event %d) and still exited 0; output tail: %s", ev[observedAt].call, observedAt, tail(res.Stdout, 300)), nil)
	}
	if banner {
		r.Violate("fail-stop/banner-after-fault/"+kind+"/"+c19msgName(codec, orig), cs, "'>> All tests finished' printed after the fault was consumed", nil)
	}
	for _, e := range ev[observedAt+1:] {
		if e.call == "sendmsg" && e.ret > 0 {
			r.Violate("fail-stop/sends-after-fault/"+kind+"/"+c19msgName(codec, orig), cs, fmt.Sprintf("the emulator sent %x after it had consumed the fault", e.data), nil)
			break
		}
	}
	return out
}

// c19isAfterRegistrationComplete: the Configuration Update Command the AMF sends after Registration Complete
// (DownlinkNASTransport whose NAS is a protected message with inner type 0x54): its content is ignored by design.
func c19isAfterRegistrationComplete(c *refper.Codec, orig []byte) bool {
	t, err := c.Decode("NGAPPDU", refper.PDUTag, orig)
	if err != nil {
		return false
	}
	var nas []*refper.Node
	collect(c, t, "NASPDU", &nas)
	for _, n := range nas {
		b := n.Get("Value").B
		if len(b) > 9 && b[0] == 0x7e && b[1] == 2 && b[7] == 0x7e && b[9] == 0x54 {
			return true
		}
	}
	return false
}
