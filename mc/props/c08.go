package props

import (
	"io"
	"reflect"
	"github.com/sirupsen/logrus"
	naslogger "free5gclib/nas/logger"
	"sort"
	"bytes"
	"fmt"
	"hash/fnv"

	"free5gclib/nas"
	"mc/refnas"
	"mc/report"
)

func init() {
	register("C08", "exploration", func(c *Ctx) { runNAS(c, "C08") })
	register("C09", "exploration", func(c *Ctx) { runNAS(c, "C09") })
}

type nasCase struct {
	t    *refnas.TMsg
	a    nasAbstract
	mk   func() nasAbstract // builds a when the case runs (the enumeration itself stays small)
	perm []int              // order in which the optional IEs are put on the wire (nil = table order)
	desc string
}

// runNAS enumerates NAS messages from the frozen TS 24.501 table and applies the oracles of C08 (lossless
// codec) or C09 (wire layout == table, both directions).
func runNAS(ctx *Ctx, prop string) {
	r := ctx.R
	if ctx.Isolate() {
		return
	}
	tab, err := loadNasTable()
	if err != nil {
		r.HarnessError(err.Error())
		return
	}
	var cases []nasCase
	const deep = true
	type bigMsg struct {
		t *refnas.TMsg
		k int
	}
	var big []bigMsg // thorough: messages whose 2^k subsets are streamed instead of being listed
	for mi := range tab.Messages {
		t := &tab.Messages[mi]
		k := len(t.Optional)
		add := func(sub []int, lens map[int]int, content, variant int, perm []int, desc string) {
			sub = append([]int{}, sub...)
			mk := func() nasAbstract {
				a := nasAbstract{mand: nasMandatoryDefault(t, variant)}
				for _, idx := range sub {
					e := t.Optional[idx]
					n := nasOptLengths(e)[0]
					if l, ok := lens[idx]; ok {
						n = l
					}
					a.opts = append(a.opts, refnas.OptVal{Idx: idx, Val: nasOptValue(e, n, content)})
				}
				return a
			}
			cases = append(cases, nasCase{t: t, mk: mk, perm: perm, desc: desc})
		}
		// optional-IE subsets: all 2^k for k<=10 (thorough: k<=16); else all subsets of size <=2 (thorough: <=3) and >=k-1
		kAll := 17
		if k > kAll && ctx.Thorough {
			big = append(big, bigMsg{t, k})
		}
		if k <= kAll {
			for mask := 0; mask < 1<<uint(k); mask++ {
				var sub []int
				for i := 0; i < k; i++ {
					if mask&(1<<uint(i)) != 0 {
						sub = append(sub, i)
					}
				}
				add(sub, nil, 0, mask%3, nil, fmt.Sprintf("subset %0*b", k, mask))
			}
		} else {
			add(nil, nil, 0, 0, nil, "no optional IE")
			all := make([]int, k)
			for i := range all {
				all[i] = i
			}
			add(all, nil, 0, 1, nil, "all optional IEs")
			for i := 0; i < k; i++ {
				add([]int{i}, nil, 0, 2, nil, fmt.Sprintf("only IE %d", i))
				var rest []int
				for j := 0; j < k; j++ {
					if j != i {
						rest = append(rest, j)
					}
				}
				add(rest, nil, 0, 0, nil, fmt.Sprintf("all but IE %d", i))
				for j := i + 1; j < k; j++ {
					add([]int{i, j}, nil, 0, 1, nil, fmt.Sprintf("IEs %d,%d", i, j))
					if deep {
						for h := j + 1; h < k; h++ {
							add([]int{i, j, h}, nil, 0, 2, nil, fmt.Sprintf("IEs %d,%d,%d", i, j, h))
						}
					}
				}
			}
		}
		// lengths and contents of every optional IE alone and next to its neighbours
		for i, e := range t.Optional {
			for _, n := range nasOptLengths(e) {
				for content := 0; content < 3; content++ {
					add([]int{i}, map[int]int{i: n}, content, content, nil, fmt.Sprintf("IE %d len %d content %d", i, n, content))
				}
				nb := []int{}
				if i > 0 {
					nb = append(nb, i-1)
				}
				nb = append(nb, i)
				if i+1 < k {
					nb = append(nb, i+1)
				}
				add(nb, map[int]int{i: n}, 0, 1, nil, fmt.Sprintf("IE %d len %d with neighbours", i, n))
				if deep {
					// every length of IE i next to every other single IE (in front of it or behind it)
					for j := 0; j < k; j++ {
						if j != i {
							pair := []int{i, j}
							if j < i {
								pair = []int{j, i}
							}
							add(pair, map[int]int{i: n}, 1, 2, nil, fmt.Sprintf("IE %d len %d with IE %d", i, n, j))
						}
					}
				}
			}
		}
		// a sweep of the length of one variable-length IE across the 256 mark (thorough: 0..600) while EVERY other single IE
		// is present in front of it or behind it (a width that wraps in an 8-bit intermediate shows only for a residue)
		sweepLo, sweepHi := 236, 276
		if ctx.Thorough {
			sweepLo, sweepHi = 0, 600
		}
		for i, e := range t.Optional {
			if e.Fmt != "TLV-E" && e.Fmt != "TLV" || e.Fixed || e.Fixed1 {
				continue
			}
			for n := sweepLo; n <= sweepHi; n++ {
				if (e.Fmt == "TLV" && n > 255) || (e.Cap > 0 && n > e.Cap) {
					continue
				}
				for j := 0; j < k; j++ {
					if j == i {
						continue
					}
					pair := []int{i, j}
					if j < i {
						pair = []int{j, i}
					}
					add(pair, map[int]int{i: n}, 2, 1, nil, fmt.Sprintf("IE %d len %d (sweep) with IE %d", i, n, j))
				}
			}
		}
		// three IEs in every wire order with one of them 256 / 300 octets long (a length that needs the second octet of a
		// two-octet indicator, in front of IEs with one-octet indicators)
		for i, e := range t.Optional {
			if e.Fmt != "TLV-E" || e.Fixed || (e.Cap > 0 && e.Cap < 300) {
				continue
			}
			for a := 0; a < k; a++ {
				for b := a + 1; b < k; b++ {
					if a == i || b == i {
						continue
					}
					three := []int{i, a, b}
					sort.Ints(three)
					for _, n := range []int{256, 300} {
						n := n
						permute(3, func(p []int) {
							add(three, map[int]int{i: n}, 1, 0, append([]int{}, p...), fmt.Sprintf("IEs %v (IE %d len %d) in wire order %v", three, i, n, p))
						})
					}
				}
			}
		}
		// mandatory LV / LV-E lengths
		for i, e := range t.Mandatory {
			if e.Fmt == "V" || e.Fixed {
				continue
			}
			for _, n := range []int{0, 1, 2, 255, 256, 1000, 65533, 65534, 65535} {
				if (e.Fmt == "LV" && n > 255) || (e.Cap > 0 && n > e.Cap) {
					continue
				}
				if n > 1000 {
					// the top of a two-octet length indicator, also with each optional IE behind the field (what follows a
					// maximal field must still be found)
					for oi := range t.Optional {
						i, n, oi := i, n, oi
						cases = append(cases, nasCase{t: t, mk: func() nasAbstract {
							a := nasAbstract{mand: nasMandatoryDefault(t, 1)}
							a.mand[i] = pattern(2, n)
							e := t.Optional[oi]
							a.opts = []refnas.OptVal{{Idx: oi, Val: nasOptValue(e, nasOptLengths(e)[0], 1)}}
							return a
						}, desc: fmt.Sprintf("mandatory field %d length %d followed by IE %d", i, n, oi)})
					}
				}
				i, n := i, n
				cases = append(cases, nasCase{t: t, mk: func() nasAbstract {
					a := nasAbstract{mand: nasMandatoryDefault(t, 1)}
					a.mand[i] = pattern(2, n)
					return a
				}, desc: fmt.Sprintf("mandatory field %d length %d", i, n)})
			}
		}
		// order of optional IEs on the wire: every permutation of up to 4 present IEs, adjacent transpositions of all
		if k >= 2 {
			sub := []int{}
			for i := 0; i < k && i < 4; i++ {
				sub = append(sub, i)
			}
			permute(len(sub), func(p []int) {
				add(sub, nil, 0, 0, append([]int{}, p...), fmt.Sprintf("first %d IEs in wire order %v", len(sub), p))
			})
			if deep && k > 4 {
				// every choice of 4 present IEs (not only the first four), in every wire order
				for a := 0; a < k; a++ {
					for b := a + 1; b < k; b++ {
						for c := b + 1; c < k; c++ {
							for d := c + 1; d < k; d++ {
								four := []int{a, b, c, d}
								if a == 0 && b == 1 && c == 2 && d == 3 {
									continue
								}
								permute(4, func(p []int) {
									add(four, nil, 0, 0, append([]int{}, p...), fmt.Sprintf("IEs %v in wire order %v", four, p))
								})
							}
						}
					}
				}
			}
			all := make([]int, k)
			for i := range all {
				all[i] = i
			}
			for i := 0; i+1 < k; i++ {
				p := make([]int, k)
				for j := range p {
					p[j] = j
				}
				p[i], p[i+1] = p[i+1], p[i]
				add(all, nil, 0, 0, p, fmt.Sprintf("all IEs, wire order swaps %d and %d", i, i+1))
			}
		}
	}
	r.Set("messages", len(tab.Messages))
	pairs := 0
	for _, m := range tab.Messages {
		pairs += len(m.Optional)
	}
	r.Set("message_IE_pairs", pairs)
	{
		h := fnv.New64a()
		for _, c := range cases {
			h.Write([]byte(c.t.Name + c.desc))
		}
		r.Consistent("case list", fmt.Sprintf("%d cases, hash %x", len(cases), h.Sum64()))
	}
	ParallelFor(r, len(cases), func(l *report.Local, i int) {
		c := cases[i]
		c.a = c.mk()
		nasRunCase(r, l, prop, c)
	})
	for _, bm := range big {
		bm := bm
		ParallelFor(r, 1<<uint(bm.k), func(l *report.Local, mask int) {
			a := nasAbstract{mand: nasMandatoryDefault(bm.t, mask%3)}
			for i := 0; i < bm.k; i++ {
				if mask&(1<<uint(i)) != 0 {
					e := bm.t.Optional[i]
					a.opts = append(a.opts, refnas.OptVal{Idx: i, Val: nasOptValue(e, nasOptLengths(e)[0], 0)})
				}
			}
			nasRunCase(r, l, prop, nasCase{t: bm.t, a: a, desc: fmt.Sprintf("subset %0*b", bm.k, mask)})
		})
	}
	if len(cases) > 0 {
		for _, i := range []int{len(cases) / 2, 7} {
			r.Sample(nasAbstractString(cases[i].t, cases[i].mk()) + " (" + cases[i].desc + ")")
		}
	}
	if !ctx.Lead() {
		// once-only parts below
	} else if prop == "C08" {
		nasUnknownTypes(r, tab)
	} else {
		nasConstructors(ctx, tab)
	}
	r.Rule = fmt.Sprintf("for each of the %d message types of the frozen TS 24.501 table (%d (message, optional IE) pairs): all 2^k optional-IE subsets for k<=%d, else none/all/each alone/all-but-one/every pair%s; every optional IE alone and with its neighbours%s at lengths {1,2,0,3,16,255,256,1000,65533..65535,capacity} x 3 contents (both nibbles of half-octet IEs); mandatory LV/LV-E lengths {0,1,2,255,256,1000,65533,65534,65535} (the largest also followed by each optional IE); every permutation of the first <=4 optional IEs%s and every adjacent transposition of all of them on the wire; %s; distinct = distinct (message, abstract value, wire order); non-trivial = at least one optional IE or a non-default length",
		len(tab.Messages), pairs, map[bool]int{false: 17, true: 24}[ctx.Thorough], map[bool]string{true: "", false: "/every triple"}[ctx.Thorough], " and next to every other single IE",
		" and of every choice of 4 optional IEs", map[string]string{
			"C08": "oracle: decode(encode(m)) == m; for the reference's canonical bytes b: encode(decode(b)) == b; permuted wire orders decode to the same message; all 256 message-type octets x both EPDs: unknown types are errors",
			"C09": "oracle: library bytes == reference layout (message type octet, mandatory order/widths, IEI, format and length width of every optional IE per the table); reference-built bytes decode to the intended values; the emulator's NAS constructors parsed by the independent parser give the intended field values"}[prop])
	r.Assume("frozen table mc/spec/ts24501.json: transcription of the pinned library reviewed against TS 24.501 clause 8 (corrections and kept release differences listed in its notes)",
		"IE values are opaque octets within the IE's capacity (inner structure of an IE is not part of these two properties)")
}

func permute(n int, f func([]int)) {
	p := make([]int, n)
	for i := range p {
		p[i] = i
	}
	var rec func(k int)
	rec = func(k int) {
		if k == n {
			f(p)
			return
		}
		for i := k; i < n; i++ {
			p[k], p[i] = p[i], p[k]
			rec(k + 1)
			p[k], p[i] = p[i], p[k]
		}
	}
	rec(0)
}

var nasHeld held // the previous case's encoding, re-examined after the next encode

func nasRunCase(r *report.Report, l *report.Local, prop string, c nasCase) {
	t := c.t
	cs := nasAbstractString(t, c.a) + " (" + c.desc + ")"
	wire := c.a.opts
	if c.perm != nil {
		wire = make([]refnas.OptVal, len(c.a.opts))
		for i, p := range c.perm {
			wire[i] = c.a.opts[p]
		}
	}
	refB, err := t.Encode(c.a.mand, wire)
	if err != nil {
		r.HarnessError("reference cannot encode " + cs + ": " + err.Error())
		return
	}
	nontrivial := len(c.a.opts) > 0 || c.desc != "no optional IE"
	l.Case(cs+fmt.Sprint(c.perm), nontrivial, fmt.Sprintf("%d", len(refB)))
	key := func(kind string) string {
		ie := "mandatory"
		if len(c.a.opts) == 1 {
			ie = fmt.Sprintf("%02X", t.Optional[c.a.opts[0].Idx].IEI)
		} else if len(c.a.opts) > 1 {
			ie = "several"
		}
		return fmt.Sprintf("%s/%s/%s", kind, t.Name, ie)
	}
	decode := func(b []byte) (nasAbstract, error) {
		m := nas.NewMessage()
		var derr error
		bb := append([]byte{}, b...)
		if perr := recoverErr(func() { derr = m.PlainNasDecode(&bb) }); perr != nil {
			return nasAbstract{}, perr
		}
		if derr != nil {
			return nasAbstract{}, derr
		}
		// the header of the decoded message, through its accessors
		if t.EPD == 0x7e {
			if e, mt := m.GmmHeader.GetExtendedProtocolDiscriminator(), m.GmmHeader.GetMessageType(); e != 0x7e || mt != t.MsgType {
				r.Violate(key("decoded-header"), cs, fmt.Sprintf("5GMM header reads EPD %#x message type %#x, the message is 7e / %#x", e, mt, t.MsgType), nil)
			}
		} else if t.EPD == 0x2e {
			if e, mt := m.GsmHeader.GetExtendedProtocolDiscriminator(), m.GsmHeader.GetMessageType(); e != 0x2e || mt != t.MsgType || m.GsmHeader.Octet[1] != b[1] || m.GsmHeader.Octet[2] != b[2] {
				r.Violate(key("decoded-header"), cs, fmt.Sprintf("5GSM header reads EPD %#x PSI %d PTI %d message type %#x, the message is 2e %d %d %#x", e, m.GsmHeader.Octet[1], m.GsmHeader.Octet[2], mt, b[1], b[2], t.MsgType), nil)
			}
		}
		// a value array longer than the IE's length must hold nothing beyond that length (octets of whatever followed on
		// the wire would be read by every accessor of an absent octet: the SD of an SST-only S-NSSAI)
		if stray := nasStrayOctets(reflect.ValueOf(m), ""); stray != "" {
			r.Violate(key("decoded-value-array-holds-octets-beyond-its-length"), cs, stray, nil)
		}
		a1, xerr := nasExtract(t, m)
		if xerr == nil {
			// the caller re-uses its receive buffer: the decoded message must not change with it
			for i := range bb {
				bb[i] ^= 0xa5
			}
			if a2, err2 := nasExtract(t, m); err2 != nil || nasEqual(a2, a1) != "" {
				r.Violate(key("decoded-message-aliases-the-input-buffer"), cs, "after the input buffer was overwritten the decoded message reads differently: "+nasEqual(a2, a1), nil)
			}
		}
		return a1, xerr
	}
	if c.perm != nil {
		// any wire order decodes to the same message (both properties use it: C08 demands it, C09 gets the layout from it)
		if prop != "C08" {
			return
		}
		got, derr := decode(refB)
		if derr != nil {
			r.Violate(key("order/decode-error"), cs, derr.Error()+fmt.Sprintf(" on %x", refB), nil)
		} else if d := nasEqual(got, c.a); d != "" {
			r.Violate(key("order/value-differs"), cs, d, nil)
		}
		return
	}
	m, berr := nasBuild(t, c.a)
	if berr != nil {
		r.Violate(key("build"), cs, berr.Error(), nil)
		return
	}
	var libB []byte
	var eerr error
	if perr := recoverErr(func() { libB, eerr = m.PlainNasEncode() }); perr != nil || eerr != nil {
		r.Violate(key("encode-error"), cs, fmt.Sprint(perr, eerr), nil)
		return
	}
	nasHeld.next(r, "result/changed-by-a-later-encode", libB, cs)
	{
		// the same message value once more: encoding must not change its argument or depend on the first call
		var again []byte
		var aerr error
		if perr := recoverErr(func() { again, aerr = m.PlainNasEncode() }); perr != nil || aerr != nil || !bytes.Equal(again, libB) {
			r.Violate(key("second-encode-of-the-same-message-differs"), cs, fmt.Sprintf("%x then %x (%v %v)", libB, again, perr, aerr), nil)
		}
	}
	if prop == "C09" {
		if !bytes.Equal(libB, refB) {
			r.Violate(key("layout/bytes-differ-from-table"), cs, fmt.Sprintf("library %x, TS 24.501 layout %x", libB, refB), nil)
		}
		got, derr := decode(refB)
		if derr != nil {
			r.Violate(key("layout/reference-bytes-not-decoded"), cs, derr.Error()+fmt.Sprintf(" on %x", refB), nil)
		} else if d := nasEqual(got, c.a); d != "" {
			r.Violate(key("layout/reference-bytes-decode-to-other-values"), cs, d, nil)
		}
		return
	}
	// C08
	got, derr := decode(libB)
	if derr != nil {
		r.Violate(key("roundtrip/decode-error"), cs, derr.Error()+fmt.Sprintf(" on %x", libB), nil)
	} else if d := nasEqual(got, c.a); d != "" {
		r.Violate(key("roundtrip/value-differs"), cs, d, nil)
	}
	// long messages once more with the NAS loggers at their most verbose level (output discarded): what is logged must
	// not change what is decoded
	if len(libB) > 200 {
		lg := naslogger.NasMsgLog.Logger
		oldOut, oldLevel := lg.Out, lg.Level
		lg.SetOutput(io.Discard)
		oldHooks := lg.ReplaceHooks(make(logrus.LevelHooks)) // (the library's file hooks write to ../log)
		lg.SetLevel(logrus.TraceLevel)
		got2, derr2 := decode(libB)
		lg.SetLevel(oldLevel)
		lg.ReplaceHooks(oldHooks)
		lg.SetOutput(oldOut)
		if derr2 != nil {
			r.Violate(key("roundtrip/decode-error/verbose-logging"), cs, derr2.Error(), nil)
		} else if d := nasEqual(got2, c.a); d != "" {
			r.Violate(key("roundtrip/value-differs/verbose-logging"), cs, d, nil)
		}
	}
	// an encode that fails half-way (an IE whose length field exceeds its fixed-size value array: the caller's mistake,
	// a panic or an error), then the well-formed message again: the failed call must leave nothing behind
	nasBrokenSeq++
	if nasBrokenSeq%16 == 0 {
		if restore, ok := nasBreakLen(reflect.ValueOf(m)); ok {
			recoverErr(func() { m.PlainNasEncode() })
			restore()
			var again []byte
			var aerr error
			if perr := recoverErr(func() { again, aerr = m.PlainNasEncode() }); perr != nil || aerr != nil || !bytes.Equal(again, libB) {
				r.Violate(key("encode-after-a-failed-encode-differs"), cs, fmt.Sprintf("%x then (after a failed encode) %x (%v %v)", libB, again, perr, aerr), nil)
			}
		}
	}
	// canonical bytes -> decode -> encode
	m2 := nas.NewMessage()
	var derr2 error
	if perr := recoverErr(func() { bb := append([]byte{}, refB...); derr2 = m2.PlainNasDecode(&bb) }); perr != nil || derr2 != nil {
		r.Violate(key("canonical/decode-error"), cs, fmt.Sprint(perr, derr2), nil)
		return
	}
	var re []byte
	if perr := recoverErr(func() { re, eerr = m2.PlainNasEncode() }); perr != nil || eerr != nil || !bytes.Equal(re, refB) {
		r.Violate(key("canonical/reencode-differs"), cs, fmt.Sprintf("%v %v: %x vs %x", perr, eerr, re, refB), nil)
	}
}

// nasUnknownTypes: every message-type octet under both EPDs; a type the table does not list must be an error.
func nasUnknownTypes(r *report.Report, tab *refnas.Table) {
	l := r.Local()
	known := map[[2]byte]bool{}
	for _, m := range tab.Messages {
		known[[2]byte{m.EPD, m.MsgType}] = true
	}
	for _, epd := range []byte{0x7e, 0x2e, 0x00, 0xff} {
		for mt := 0; mt < 256; mt++ {
			b := []byte{epd, 0x00, byte(mt), 0x00, 0x00, 0x00, 0x00, 0x00}
			if epd == 0x2e {
				b = []byte{epd, 0x05, 0x01, byte(mt), 0x00, 0x00, 0x00, 0x00}
			}
			m := nas.NewMessage()
			var derr error
			perr := recoverErr(func() { derr = m.PlainNasDecode(&b) })
			cs := fmt.Sprintf("EPD %#x message type %#x", epd, mt)
			l.Case(cs, true, fmt.Sprint(derr != nil))
			if known[[2]byte{epd, byte(mt)}] {
				continue
			}
			if perr != nil {
				r.Violate("unknown-type/panic", cs, perr.Error(), nil)
			} else if derr == nil {
				r.Violate("unknown-type/no-error", cs, "decoded without an error", nil)
			}
		}
	}
	l.Merge()
}


var nasBrokenSeq int

// nasBreakLen finds, in a built message, the first present IE with a Len field and a fixed-size Octet array and sets Len
// beyond the array; restore undoes it.
func nasBreakLen(v reflect.Value) (restore func(), ok bool) {
	switch v.Kind() {
	case reflect.Ptr, reflect.Interface:
		if v.IsNil() {
			return nil, false
		}
		return nasBreakLen(v.Elem())
	case reflect.Struct:
		var ln, oc reflect.Value
		if f, ok := v.Type().FieldByName("Len"); ok && len(f.Index) == 1 {
			ln = v.Field(f.Index[0])
		}
		if f, ok := v.Type().FieldByName("Octet"); ok && len(f.Index) == 1 {
			oc = v.Field(f.Index[0])
		}
		if ln.IsValid() && oc.IsValid() && oc.Kind() == reflect.Array && ln.CanSet() && (ln.Kind() == reflect.Uint8 || ln.Kind() == reflect.Uint16) && oc.Len() < 250 {
			old := ln.Uint()
			ln.SetUint(uint64(oc.Len() + 3))
			return func() { ln.SetUint(old) }, true
		}
		for i := 0; i < v.NumField(); i++ {
			if !v.Type().Field(i).IsExported() {
				continue
			}
			if r, ok := nasBreakLen(v.Field(i)); ok {
				return r, true
			}
		}
	}
	return nil, false
}


// nasStrayOctets walks a decoded message and reports the first IE whose fixed-size Octet array is non-zero beyond Len.
func nasStrayOctets(v reflect.Value, path string) string {
	switch v.Kind() {
	case reflect.Ptr, reflect.Interface:
		if v.IsNil() {
			return ""
		}
		return nasStrayOctets(v.Elem(), path)
	case reflect.Struct:
		var ln, oc reflect.Value
		if f, ok := v.Type().FieldByName("Len"); ok && len(f.Index) == 1 {
			ln = v.Field(f.Index[0])
		}
		if f, ok := v.Type().FieldByName("Octet"); ok && len(f.Index) == 1 {
			oc = v.Field(f.Index[0])
		}
		if ln.IsValid() && oc.IsValid() && oc.Kind() == reflect.Array && (ln.Kind() == reflect.Uint8 || ln.Kind() == reflect.Uint16) {
			for i := int(ln.Uint()); i < oc.Len(); i++ {
				if oc.Index(i).Uint() != 0 {
					return fmt.Sprintf("%s: Len %d, Octet[%d] = %#x", path+"."+v.Type().Name(), ln.Uint(), i, oc.Index(i).Uint())
				}
			}
			return ""
		}
		for i := 0; i < v.NumField(); i++ {
			if !v.Type().Field(i).IsExported() {
				continue
			}
			if s := nasStrayOctets(v.Field(i), path+"."+v.Type().Field(i).Name); s != "" {
				return s
			}
		}
	}
	return ""
}
