package props

import (
	"encoding/hex"
	"fmt"
	"strings"
	"sync"

	"mc/explore"
	"mc/n2"
	"mc/refamf"
	"mc/refcrypto"
	"mc/refper"
	"mc/report"
)

// n2case is one closed-system execution: emulator configuration + AMF knowledge + AMF choices.
type n2case struct {
	emu  n2.EmuConfig
	amf  refamf.Config
	ch   refamf.Choices
	desc string
}

type plmnImsi struct{ imsi, mcc, mnc string }

var n2imsis = []plmnImsi{{"001010000000001", "001", "01"}, {"00101000000001", "001", "01"}, {"208930000000009", "208", "93"}, {"001001000000001", "001", "001"},
	{"310410123456789", "310", "410"}, {"999999999999990", "999", "999"}, {"001010000099998", "001", "01"},
	// the second UE's identity needs a carry through one / several 9s
	{"001010000000099", "001", "01"}, {"001010099999999", "001", "01"},
	// even number of digits together with a 3-digit MNC; a short IMSI
	{"00100100000001", "001", "001"}, {"310410123456", "310", "410"}}

// n2config picks the configuration dimensions (C01/C18) from the chooser.
func n2config(c *explore.Chooser) (n2.EmuConfig, refamf.Config) {
	e := n2.DefaultEmuConfig()
	pi := n2imsis[c.Pick("imsi/plmn", len(n2imsis))]
	e.IMSI, e.MCC, e.MNC = pi.imsi, pi.mcc, pi.mnc
	type cred struct{ k, op string }
	creds := []cred{{"465B5CE8B199B49FAA5F0A2EE238A6BC", "E8ED289DEBA952E4283B54E88E6183CA"}, {"465b5ce8b199b49faa5f0a2ee238a6bc", "cdc202d5123e20f62b6d676ac72cb318"},
		{"00000000000000000000000000000000", "00000000000000000000000000000000"}, {"ffffffffffffffffffffffffffffffff", "ffffffffffffffffffffffffffffffff"}}
	cr := creds[c.Pick("k/op", len(creds))]
	k, _ := hex.DecodeString(cr.k)
	x, _ := hex.DecodeString(cr.op)
	e.K = cr.k
	var opc []byte
	switch c.Pick("credential-form", 3) {
	case 0: // OPc given (and OP set to the same text, as the shipped file does)
		e.OPc, e.OP = cr.op, cr.op
		opc = x
	case 1: // OP only
		e.OPc, e.OP = "", cr.op
		opc = refcrypto.OPc(k, x)
	case 2: // OPc given, OP empty
		e.OPc, e.OP = cr.op, ""
		opc = x
	}
	bits := []int{24, 22, 27, 32, 23, 25, 26, 28, 29, 30, 31}[c.Pick("gnb_bitlength", 11)]
	e.GnbBits = bits
	// default: every octet, and the used bits of the last octet at every length, carry set bits (a mask or shift error
	// in the last partial octet shows); alternative: the shipped 00 01 02 (03). Octets stay below 0x80: a YAML "\xNN"
	// escape denotes a Unicode character, not an octet.
	id := []byte{0x12, 0x34, 0x56, 0x7b}[:(bits+7)/8]
	switch c.Pick("gnb_id-bytes", 4) {
	case 1:
		id = []byte{0x00, 0x01, 0x02, 0x03}[:(bits+7)/8]
	case 2: // octets that are white space when read as text, at both ends (the id is binary: nothing may trim it)
		id = []byte{0x20, 0x09, 0x0a, 0x20}[:(bits+7)/8]
		if bits <= 24 {
			id = []byte{0x0d, 0x41, 0x20}
		}
	case 3:
		id = []byte{0x0a, 0x00, 0x04, 0x0c}[:(bits+7)/8]
	}
	written := append([]byte{}, id...) // what the file says
	if bits%8 != 0 { // the id is the first `bits` bits, left aligned; what the file has in the unused bits of the last octet is not part of it
		id = append([]byte{}, id...)
		id[len(id)-1] &= 0xff << uint(8-bits%8)
		if c.Pick("gnb_id-unused-bits-in-the-file", 2) == 1 {
			written = id // default: the file has set bits there (the shipped 00 01 02 with a 22-bit length does); alternative: written clean
		}
	}
	e.GnbID = string(written)
	e.GnbName = []string{"open5gs", "g", strings.Repeat("n", 150), " cn=gnb01,o=upm (lab+1/2:a?) ", "A'B.C-D"}[c.Pick("gnb_name", 5)]
	a := refamf.Config{IMSI: e.IMSI, MCC: e.MCC, MNC: e.MNC, K: k, OPc: opc, GnbID: id, GnbBits: uint64(bits), GnbName: e.GnbName,
		GnbGtpIP: []byte{192, 168, 61, 3}, SST: 1, SD: []byte{1, 2, 3}, MaxUE: 32}
	return e, a
}

// n2choices picks the AMF-side choices of the registration exchange (C01).
func n2choices(c *explore.Chooser) refamf.Choices {
	ch := refamf.DefaultChoices()
	ch.RAND = [][]byte{ch.RAND, make([]byte, 16), hx("ffffffffffffffffffffffffffffff00"), hx("0123456789abcdef0123456789abcdef")}[c.Pick("RAND", 4)]
	ch.SQN = [][]byte{ch.SQN, hx("000000000000"), hx("000000000001"), hx("800000000000"), hx("ffffffffffff")}[c.Pick("SQN", 5)]
	ch.AMFField = [][]byte{{0x80, 0}, {0, 0}, {0xff, 0xff}}[c.Pick("AMF-field", 3)]
	ch.AmfUeIDBase = []int64{1, 0, 255, 256, 65535, 65536, 1<<32 - 1, 1 << 32, 1<<40 - 2}[c.Pick("AMF-UE-NGAP-ID", 9)]
	ch.NgKSI = byte(c.Pick("ngKSI", 7))
	for i, n := range []string{"OldAMF", "RANPagingPriority", "MobilityRestrictionList", "IndexToRFSP", "UE-AMBR", "AllowedNSSAI"} {
		if c.Pick("DLNAS+"+n, 2) == 1 {
			ch.DLNasOpt |= 1 << uint(i)
		}
	}
	for i, n := range []string{"OldAMF", "UE-AMBR", "CoreNetworkAssistanceInformation", "MobilityRestrictionList", "MaskedIMEISV", "EmergencyFallbackIndicator", "IndexToRFSP"} {
		if c.Pick("ICS+"+n, 2) == 1 {
			ch.ICSOpt |= 1 << uint(i)
		}
	}
	ch.NGSetupShape = c.Pick("NGSetupResponse-shape", 4)
	ch.PerUE = c.Pick("per-UE-RAND/SQN", 4)
	if c.Pick("SMC+IMEISV-request", 2) == 1 {
		ch.SMCOpt |= 1
	}
	if c.Pick("SMC+RINMR", 2) == 1 {
		ch.SMCOpt |= 2
	}
	return ch
}

var (
	n2codecOnce sync.Once
	n2codec     *refper.Codec
)

func getCodec(r *report.Report) *refper.Codec {
	n2codecOnce.Do(func() {
		s, err := loadSchema()
		if err != nil {
			r.HarnessError(err.Error())
			return
		}
		n2codec = &refper.Codec{S: s}
	})
	return n2codec
}

// n2stats accumulates model coverage over executions.
type n2stats struct {
	mu          sync.Mutex
	states      map[string]bool
	transitions map[string]bool
	runs        int
	samples     []string
}

func newN2stats() *n2stats { return &n2stats{states: map[string]bool{}, transitions: map[string]bool{}} }

func (s *n2stats) add(a *refamf.AMF) {
	s.mu.Lock()
	for k := range a.States {
		s.states[k] = true
	}
	for k := range a.Transitions {
		s.transitions[k] = true
	}
	s.runs++
	s.mu.Unlock()
}

// n2judge applies the common oracle of a fault-free test-mode conversation.
func n2judge(r *report.Report, cs string, res n2.Result, a *refamf.AMF, wantStates func(u *refamf.UE) string, wantUEs int, picks []int) (outcome string) {
	if res.HarnessErr != "" {
		r.HarnessError(res.HarnessErr)
		return "harness"
	}
	for _, v := range a.Viol {
		r.Violate("amf/"+v.Key, cs, v.Detail, picks)
	}
	if res.Rejected {
		return "rejected:" + a.Viol[0].Key
	}
	if res.Hung {
		r.Violate("emulator/hang", cs, fmt.Sprintf("the emulator did not finish within the horizon; uplink %d downlink %d; AMF state %s; output tail: %s", len(res.Up), len(res.Down), a.Summary(), tail(res.Stdout, 400)), picks)
		return "hang"
	}
	if len(a.Viol) > 0 {
		return "rejected:" + a.Viol[0].Key
	}
	if a.RejectIssued {
		// a session establishment was rejected: stopping there (with whatever exit status) and going on without the
		// session are both fine; every message sent after the reject has been judged above
		return "after-session-reject:exit=" + fmt.Sprint(res.ExitCode)
	}
	if res.ExitCode != 0 || !strings.Contains(res.Stdout, ">> All tests finished") {
		key := "emulator/did-not-complete"
		for _, line := range strings.Split(res.Stdout, "\n") {
			if strings.HasPrefix(line, "Error ") || strings.HasPrefix(line, "panic:") {
				key = "emulator/did-not-complete/" + errClass(fmt.Errorf("%s", line))
			}
		}
		r.Violate(key, cs, fmt.Sprintf("exit status %d, banner present %v; AMF state %s; output tail: %s", res.ExitCode, strings.Contains(res.Stdout, ">> All tests finished"), a.Summary(), tail(res.Stdout, 600)), picks)
		return "incomplete"
	}
	if len(a.UEs()) != wantUEs {
		r.Violate("conversation/ue-count", cs, fmt.Sprintf("the AMF saw %d UEs, the configuration asks for %d", len(a.UEs()), wantUEs), picks)
	}
	for _, u := range a.UEs() {
		if w := wantStates(u); u.StateName() != w {
			r.Violate("conversation/final-state", cs, fmt.Sprintf("UE %s ends in %s at the AMF, expected %s; model trace %v; %d uplink / %d downlink messages; exit %d", u.Supi, u.StateName(), w, a.Trace, len(res.Up), len(res.Down), res.ExitCode), picks)
		}
	}
	return "ok:" + a.Summary()
}

func tail(s string, n int) string {
	if len(s) > n {
		return "…" + s[len(s)-n:]
	}
	return s
}
