package props

import (
	"bytes"
	"encoding/base64"
	"fmt"

	"free5gclib/nas/nasMessage"
	"free5gclib/nas/nasTestpacket"
	"free5gclib/nas/nasType"
	"free5gclib/openapi/models"
	"mc/refnas"
	"stgutg"
)

// nasConstructors: the NAS messages the emulator builds (nasTestpacket constructors, with the emulator's own
// argument patterns) are parsed by the independent table-driven parser; the fields must be the intended ones.
func nasConstructors(ctx *Ctx, tab *refnas.Table) {
	r := ctx.R
	var ctorHeld held
	l := r.Local()
	parse := func(name string, b []byte, cs string) (mand [][]byte, opts map[string][]byte, ok bool) {
		t := nasMsgByName(tab, name)
		ctorHeld.next(r, "constructor/result-changed-by-a-later-constructor-call", b, cs)
		l.Case(cs, true, fmt.Sprint(len(b)))
		if len(b) < 3 {
			r.Violate("constructor/"+name+"/too-short", cs, fmt.Sprintf("%x", b), nil)
			return nil, nil, false
		}
		mand, ov, err := t.Parse(b)
		if err != nil {
			r.Violate("constructor/"+name+"/not-parsed-by-reference", cs, err.Error()+fmt.Sprintf(" on %x", b), nil)
			return nil, nil, false
		}
		hdr := 2
		if t.EPD == 0x2e {
			hdr = 3
		}
		if mand[0][0] != t.EPD || mand[hdr][0] != t.MsgType {
			r.Violate("constructor/"+name+"/header", cs, fmt.Sprintf("EPD %#x message type %#x", mand[0][0], mand[hdr][0]), nil)
		}
		if t.EPD == 0x7e && b[1] != 0x00 {
			// a plain 5GMM message: security header type 0000 and the spare half octet 0000 (TS 24.501 9.3, 9.5)
			r.Violate("constructor/"+name+"/second-octet", cs, fmt.Sprintf("octet 2 is %#x, a plain 5GMM message has 00 there", b[1]), nil)
		}
		opts = map[string][]byte{}
		for _, o := range ov {
			if _, dup := opts[t.Optional[o.Idx].IE]; dup {
				r.Violate("constructor/"+name+"/IE-repeated", cs, t.Optional[o.Idx].IE, nil)
			}
			opts[t.Optional[o.Idx].IE] = o.Val
		}
		return mand, opts, true
	}
	want := func(name, field, cs string, got, exp []byte) {
		if !bytes.Equal(got, exp) {
			r.Violate("constructor/"+name+"/"+field, cs, fmt.Sprintf("%s on the wire %x, intended %x", field, got, exp), nil)
		}
	}
	sucis := []*nasType.MobileIdentity5GS{stgutg.EncodeSuci([]byte("001010000000001"), 2), stgutg.EncodeSuci([]byte("310410123456789"), 3), stgutg.EncodeSuci([]byte("00101000001"), 2)}
	caps := []*nasType.UESecurityCapability{{Iei: 0x2e, Len: 2, Buffer: []byte{0x80, 0x20}}, {Iei: 0x2e, Len: 4, Buffer: []byte{0xf0, 0xf0, 0xf0, 0xf0}}, nil}
	// Registration Request: every argument, including the rarely used optional ones (requested NSSAI, uplink data status)
	for si, suci := range sucis {
		for ci, c := range caps {
			for _, clen := range []int{-1, 0, 1, 40, 255, 256, 300, -2, -3} {
				for variant := 0; variant < 8; variant++ {
					mm, withNssai, withUds := variant&1 != 0, variant&2 != 0, variant&4 != 0
					if variant > 1 && !(ci == 0 && (clen == -1 || clen == 40 || clen < -1)) {
						continue
					}
					var cont []byte
					if clen >= 0 {
						cont = pattern(2, clen)
					}
					// containers that are themselves NAS messages (what TS 24.501 4.4.6 puts there): a plain REGISTRATION REQUEST
					// and a SERVICE REQUEST
					if clen == -2 {
						cont = nasTestpacket.GetRegistrationRequest(nasMessage.RegistrationType5GSInitialRegistration, *sucis[0], nil, caps[0], nil, nil, nil)
					}
					if clen == -3 {
						cont = nasTestpacket.GetServiceRequest(nasMessage.ServiceTypeData)
					}
					var cap5 *nasType.Capability5GMM
					if mm {
						cap5 = &nasType.Capability5GMM{Iei: 0x10, Len: 1, Octet: [13]uint8{0x07}}
					}
					var nssai *nasType.RequestedNSSAI
					if withNssai {
						nssai = &nasType.RequestedNSSAI{Iei: 0x2f, Len: 5, Buffer: []byte{4, 1, 1, 2, 3}}
					}
					var uds *nasType.UplinkDataStatus
					if withUds {
						uds = &nasType.UplinkDataStatus{Iei: 0x40, Len: 2, Buffer: []byte{0x20, 0x00}}
					}
					for _, rt := range []uint8{nasMessage.RegistrationType5GSInitialRegistration, nasMessage.RegistrationType5GSMobilityRegistrationUpdating, nasMessage.RegistrationType5GSPeriodicRegistrationUpdating} {
						if rt != nasMessage.RegistrationType5GSInitialRegistration && !(si == 0 && ci == 0 && clen == -1) {
							continue
						}
						cs := fmt.Sprintf("GetRegistrationRequest type=%d suci=%d cap=%d container=%d 5gmm=%v requestedNSSAI=%v uplinkDataStatus=%v", rt, si, ci, clen, mm, withNssai, withUds)
						var b []byte
						if perr := recoverErr(func() {
							b = nasTestpacket.GetRegistrationRequest(rt, *suci, nssai, c, cap5, cont, uds)
						}); perr != nil {
							r.Violate("constructor/RegistrationRequest/panic", cs, perr.Error(), nil)
							continue
						}
						mand, opts, ok := parse("RegistrationRequest", b, cs)
						if !ok {
							continue
						}
						want("RegistrationRequest", "ngKSI-and-registration-type", cs, mand[3], []byte{0x78 | rt})
						want("RegistrationRequest", "mobile-identity", cs, mand[4], suci.Buffer)
						present := map[string][]byte{}
						if c != nil {
							present["UESecurityCapability"] = c.Buffer
						}
						if mm {
							present["Capability5GMM"] = []byte{0x07}
						}
						if cont != nil {
							present["NASMessageContainer"] = cont
						}
						if withNssai {
							present["RequestedNSSAI"] = nssai.Buffer
						}
						if withUds {
							present["UplinkDataStatus"] = uds.Buffer
						}
						for ie, v := range present {
							got, has := opts[ie]
							if !has {
								r.Violate("constructor/RegistrationRequest/IE-missing/"+ie, cs, fmt.Sprintf("%s given to the constructor is not on the wire under its TS 24.501 IEI: %x", ie, b), nil)
								continue
							}
							want("RegistrationRequest", ie, cs, got, v)
						}
						for ie := range opts {
							if _, exp := present[ie]; !exp {
								r.Violate("constructor/RegistrationRequest/unexpected-IE", cs, ie+" on the wire but not given to the constructor", nil)
							}
						}
					}
				}
			}
		}
	}
	// Authentication Response, Security Mode Complete, Registration Complete
	for k := 0; k <= 4; k++ { // RES* is always 16 octets (TS 33.501 A.4); contents vary
		res := pattern(k, 16)
		cs := fmt.Sprintf("GetAuthenticationResponse res* pattern %d", k)
		if _, opts, ok := parse("AuthenticationResponse", nasTestpacket.GetAuthenticationResponse(res, ""), cs); ok {
			want("AuthenticationResponse", "RES*", cs, opts["AuthenticationResponseParameter"], res)
		}
	}
	// the EAP branch of the same constructor (no RES*: EAP-AKA'): EAP packets of every length 1..70 (all residues mod 3 of
	// the base64 text) and a few long ones
	for _, n := range append(seqInts(1, 70), 255, 256, 300, 1000) {
		eap := pattern(3, n)
		cs := fmt.Sprintf("GetAuthenticationResponse EAP message of %d octets", n)
		var b []byte
		if perr := recoverErr(func() { b = nasTestpacket.GetAuthenticationResponse(nil, base64.StdEncoding.EncodeToString(eap)) }); perr != nil {
			r.Violate("constructor/AuthenticationResponse/panic", cs, perr.Error(), nil)
			continue
		}
		if _, opts, ok := parse("AuthenticationResponse", b, cs); ok {
			want("AuthenticationResponse", "EAP-message", cs, opts["EAPMessage"], eap)
			if _, has := opts["AuthenticationResponseParameter"]; has {
				r.Violate("constructor/AuthenticationResponse/unexpected-IE", cs, "authentication response parameter present without RES*", nil)
			}
		}
	}
	for _, n := range []int{-1, 0, 1, 30, 255, 256, 300} {
		var cont []byte
		if n >= 0 {
			cont = pattern(2, n)
		}
		cs := fmt.Sprintf("GetSecurityModeComplete container=%d", n)
		if _, opts, ok := parse("SecurityModeComplete", nasTestpacket.GetSecurityModeComplete(cont), cs); ok {
			if cont != nil {
				want("SecurityModeComplete", "NAS-message-container", cs, opts["NASMessageContainer"], cont)
			}
			if v := opts["IMEISV"]; len(v) != 9 {
				r.Violate("constructor/SecurityModeComplete/IMEISV-length", cs, fmt.Sprintf("%x", v), nil)
			}
		}
	}
	parse("RegistrationComplete", nasTestpacket.GetRegistrationComplete(nil), "GetRegistrationComplete(nil)")
	if _, opts, ok := parse("RegistrationComplete", nasTestpacket.GetRegistrationComplete([]byte{1, 2, 3}), "GetRegistrationComplete(sor)"); ok {
		want("RegistrationComplete", "SOR-container", "GetRegistrationComplete(sor)", opts["SORTransparentContainer"], []byte{1, 2, 3})
	}
	// UL NAS TRANSPORT carrying 5GSM messages: every PSI 0..255
	for psi := 0; psi < 256; psi++ {
		for _, rt := range []uint8{1, 2, 3, 4, 5} {
			if psi > 16 && rt != 1 {
				continue
			}
			for _, dnn := range []string{"internet", "", "a", string(pattern(2, 100))} {
				if psi > 16 && dnn != "internet" {
					continue
				}
				sn := &models.Snssai{Sst: int32(1 + psi%3), Sd: []string{"010203", "ffffff", "000001", "ABCDEF", "0A0b0C", "12AbcD", "000000"}[psi%7]}
				cs := fmt.Sprintf("GetUlNasTransport_PduSessionEstablishmentRequest psi=%d requestType=%d dnn=%d octets sst=%d sd=%s", psi, rt, len(dnn), sn.Sst, sn.Sd)
				var b []byte
				if perr := recoverErr(func() { b = nasTestpacket.GetUlNasTransport_PduSessionEstablishmentRequest(uint8(psi), rt, dnn, sn) }); perr != nil {
					r.Violate("constructor/ULNASTransport/panic", cs, perr.Error(), nil)
					continue
				}
				mand, opts, ok := parse("ULNASTransport", b, cs)
				if !ok {
					continue
				}
				want("ULNASTransport", "payload-container-type", cs, []byte{mand[3][0] & 0xf}, []byte{1})
				want("ULNASTransport", "PDU-session-ID", cs, opts["PduSessionID2Value"], []byte{byte(psi)})
				want("ULNASTransport", "request-type", cs, opts["RequestType"], []byte{rt & 7})
				if dnn != "" {
					// DNN value = APN encoding of TS 23.003 9.1: labels prefixed by their length (the name given is one label)
					want("ULNASTransport", "DNN", cs, opts["DNN"], append([]byte{byte(len(dnn))}, []byte(dnn)...))
				}
				want("ULNASTransport", "S-NSSAI", cs, opts["SNSSAI"], append([]byte{byte(sn.Sst)}, hx(sn.Sd)...))
				if psi <= 16 && rt == 1 && dnn == "internet" {
					// a slice without (or with a short) slice differentiator right after one with a full SD: the IE is the SST
					// alone, or the SST with the given SD octets zero-padded - never octets remembered from the earlier call
					for _, shortSd := range []string{"", "0a"} {
						sn2 := &models.Snssai{Sst: sn.Sst, Sd: shortSd}
						cs2 := cs + fmt.Sprintf(" ; then the same with sd=%q", shortSd)
						var b2 []byte
						if perr := recoverErr(func() { b2 = nasTestpacket.GetUlNasTransport_PduSessionEstablishmentRequest(uint8(psi), rt, dnn, sn2) }); perr != nil {
							r.Violate("constructor/ULNASTransport/panic", cs2, perr.Error(), nil)
							continue
						}
						if _, o2, ok2 := parse("ULNASTransport", b2, cs2); ok2 {
							got := o2["SNSSAI"]
							padded := append(append([]byte{byte(sn2.Sst)}, hx(shortSd)...), 0, 0, 0)[:4]
							if !bytes.Equal(got, []byte{byte(sn2.Sst)}) && !bytes.Equal(got, padded) {
								r.Violate("constructor/ULNASTransport/S-NSSAI-depends-on-earlier-call", cs2, fmt.Sprintf("S-NSSAI on the wire %x, given sst=%d sd=%q", got, sn2.Sst, shortSd), nil)
							}
						}
					}
				}
				im, iopts, ok := parse("PDUSessionEstablishmentRequest", mand[4], cs+" [container]")
				if ok {
					want("PDUSessionEstablishmentRequest", "PDU-session-identity", cs, im[1], []byte{byte(psi)})
					want("PDUSessionEstablishmentRequest", "PTI", cs, im[2], []byte{1})
					want("PDUSessionEstablishmentRequest", "integrity-max-data-rate", cs, im[4], []byte{0xff, 0xff})
					want("PDUSessionEstablishmentRequest", "PDU-session-type", cs, iopts["PDUSessionType"], []byte{1})
					want("PDUSessionEstablishmentRequest", "ePCO", cs, iopts["ExtendedProtocolConfigurationOptions"], hx("80000a00000d00000300"))
				}
			}
		}
		for _, kind := range []string{"release-request", "release-complete"} {
			cs := fmt.Sprintf("GetUlNasTransport_PduSession %s psi=%d", kind, psi)
			var b []byte
			inner, mt := "PDUSessionReleaseRequest", byte(0xd1)
			if kind == "release-request" {
				b = nasTestpacket.GetUlNasTransport_PduSessionReleaseRequest(uint8(psi))
			} else {
				inner, mt = "PDUSessionReleaseComplete", 0xd4
				b = nasTestpacket.GetUlNasTransport_PduSessionReleaseComplete(uint8(psi), 1, "internet", &models.Snssai{Sst: 1, Sd: "010203"})
			}
			mand, opts, ok := parse("ULNASTransport", b, cs)
			if !ok {
				continue
			}
			want("ULNASTransport", "PDU-session-ID", cs, opts["PduSessionID2Value"], []byte{byte(psi)})
			// exactly the IEs the constructor is given values for, whatever was built before it (the establishment
			// request just above carries a request type, an S-NSSAI and a DNN)
			allowed := map[string]bool{"PduSessionID2Value": true}
			if kind == "release-complete" {
				allowed["RequestType"], allowed["SNSSAI"], allowed["DNN"] = true, true, true
			}
			if kind == "release-complete" {
				// ... and all of those it was given
				want("ULNASTransport", "request-type", cs, opts["RequestType"], []byte{1})
				want("ULNASTransport", "DNN", cs, opts["DNN"], append([]byte{8}, []byte("internet")...))
				want("ULNASTransport", "S-NSSAI", cs, opts["SNSSAI"], []byte{1, 1, 2, 3})
			}
			for ie := range opts {
				if !allowed[ie] {
					r.Violate("constructor/ULNASTransport/unexpected-IE/"+kind, cs, fmt.Sprintf("%s on the wire (%x) although the constructor was not given one", ie, b), nil)
				}
			}
			if im, _, ok := parse(inner, mand[4], cs+" [container]"); ok {
				want(inner, "PDU-session-identity", cs, im[1], []byte{byte(psi)})
				want(inner, "message-type", cs, im[3], []byte{mt})
			}
		}
	}
	// Service Request, Deregistration Request
	for _, st := range []uint8{nasMessage.ServiceTypeSignalling, nasMessage.ServiceTypeData, nasMessage.ServiceTypeMobileTerminatedServices} {
		cs := fmt.Sprintf("GetServiceRequest type=%d", st)
		if mand, opts, ok := parse("ServiceRequest", nasTestpacket.GetServiceRequest(st), cs); ok {
			want("ServiceRequest", "service-type", cs, []byte{mand[3][0] >> 4}, []byte{st})
			if len(mand[4]) != 7 || mand[4][0]&7 != 4 {
				r.Violate("constructor/ServiceRequest/5G-S-TMSI", cs, fmt.Sprintf("%x", mand[4]), nil)
			}
			if st == nasMessage.ServiceTypeData && len(opts["UplinkDataStatus"]) != 2 {
				r.Violate("constructor/ServiceRequest/uplink-data-status", cs, fmt.Sprintf("%x", opts["UplinkDataStatus"]), nil)
			}
		}
	}
	for si, suci := range sucis {
		for _, sw := range []uint8{0, 1} {
			for ksi := uint8(0); ksi < 8; ksi++ {
				cs := fmt.Sprintf("GetDeregistrationRequest suci=%d switchOff=%d ngKSI=%d", si, sw, ksi)
				if mand, _, ok := parse("DeregistrationRequestUEOriginatingDeregistration", nasTestpacket.GetDeregistrationRequest(nasMessage.AccessType3GPP, sw, ksi, *suci), cs); ok {
					want("DeregistrationRequest", "mobile-identity", cs, mand[4], suci.Buffer)
					if (mand[3][0]>>3)&1 != sw || mand[3][0]&3 != nasMessage.AccessType3GPP {
						r.Violate("constructor/DeregistrationRequest/type", cs, fmt.Sprintf("%#x", mand[3][0]), nil)
					}
				}
			}
		}
	}
	parse("ConfigurationUpdateComplete", nasTestpacket.GetConfigurationUpdateComplete(), "GetConfigurationUpdateComplete")
	parse("Status5GMM", nasTestpacket.GetStatus5GMM(0x6f), "GetStatus5GMM")
	parse("DeregistrationAcceptUETerminatedDeregistration", nasTestpacket.GetDeregistrationAccept(), "GetDeregistrationAccept")
	l.Merge()
	r.Sample("GetUlNasTransport_PduSessionEstablishmentRequest psi=15 requestType=1 dnn=8 octets -> UL NAS TRANSPORT parsed by the table: container type, 5GSM header, 12/8-/22/25 IEs")
}

func seqInts(lo, hi int) []int {
	var out []int
	for i := lo; i <= hi; i++ {
		out = append(out, i)
	}
	return out
}
