package props

import (
	"mc/refnas"
	"bytes"
	"fmt"

	"free5gclib/nas/nasConvert"
	"free5gclib/nas/nasMessage"
	"free5gclib/nas/nasTestpacket"
	"free5gclib/openapi/models"
	"mc/report"
	"stgutg"
	"tglib/ngapTestpacket"
)

func init() { register("C11", "exploration", runC11) }

// refPLMN: TS 24.501 9.11.3.4 / TS 38.413 9.3.3.5 PLMN identity, 3 octets.
func refPLMN(mcc, mnc string) []byte {
	d := func(c byte) byte { return c - '0' }
	m3 := byte(0xf)
	m1, m2 := d(mnc[0]), d(mnc[1])
	if len(mnc) == 3 {
		m3 = d(mnc[2])
	}
	return []byte{d(mcc[1])<<4 | d(mcc[0]), m3<<4 | d(mcc[2]), m2<<4 | m1}
}

// refDecodeSuci: independent TS 24.501 9.11.3.4 decoder for SUPI format IMSI, null scheme.
func refDecodeSuci(b []byte) (mcc, mnc, msin string, err error) {
	if len(b) < 9 {
		return "", "", "", fmt.Errorf("too short: %d", len(b))
	}
	if b[0]&0x07 != 1 {
		return "", "", "", fmt.Errorf("type of identity %d, want 1 (SUCI)", b[0]&7)
	}
	if (b[0]>>4)&0x07 != 0 {
		return "", "", "", fmt.Errorf("SUPI format %d, want 0 (IMSI)", (b[0]>>4)&7)
	}
	if b[0]&0x88 != 0 {
		return "", "", "", fmt.Errorf("spare bits set in octet 1: %#x", b[0])
	}
	dig := func(n byte) (byte, error) {
		if n > 9 {
			return 0, fmt.Errorf("non-decimal digit %#x", n)
		}
		return '0' + n, nil
	}
	var e error
	get := func(n byte) byte {
		c, er := dig(n)
		if er != nil && e == nil {
			e = er
		}
		return c
	}
	mcc = string([]byte{get(b[1] & 0xf), get(b[1] >> 4), get(b[2] & 0xf)})
	mnc = string([]byte{get(b[3] & 0xf), get(b[3] >> 4)})
	if b[2]>>4 != 0xf {
		mnc += string([]byte{get(b[2] >> 4)})
	}
	if e != nil {
		return "", "", "", e
	}
	// routing indicator: 1..4 digits, unused = f; the emulator announces "0"
	if b[4] != 0xf0 || b[5] != 0xff {
		return "", "", "", fmt.Errorf("routing indicator octets %02x%02x, want f0ff (routing indicator 0)", b[4], b[5])
	}
	if b[6]&0x0f != 0 {
		return "", "", "", fmt.Errorf("protection scheme %d, want 0 (null scheme)", b[6]&0xf)
	}
	if b[7] != 0 {
		return "", "", "", fmt.Errorf("home network public key identifier %d, want 0", b[7])
	}
	out := b[8:]
	for i, o := range out {
		lo, hi := o&0xf, o>>4
		c, er := dig(lo)
		if er != nil {
			return "", "", "", fmt.Errorf("MSIN octet %d: %v", i, er)
		}
		msin += string([]byte{c})
		if hi == 0xf {
			if i != len(out)-1 {
				return "", "", "", fmt.Errorf("filler before the last MSIN octet")
			}
			break
		}
		c, er = dig(hi)
		if er != nil {
			return "", "", "", fmt.Errorf("MSIN octet %d: %v", i, er)
		}
		msin += string([]byte{c})
	}
	return
}

func splitmix(x uint64) uint64 {
	x += 0x9e3779b97f4a7c15
	x = (x ^ (x >> 30)) * 0xbf58476d1ce4e5b9
	x = (x ^ (x >> 27)) * 0x94d049bb133111eb
	return x ^ (x >> 31)
}

func plmnByIndex(i int) (mcc, mnc string) {
	mcc = fmt.Sprintf("%03d", i/1100)
	j := i % 1100
	if j < 100 {
		mnc = fmt.Sprintf("%02d", j)
	} else {
		mnc = fmt.Sprintf("%03d", j-100)
	}
	return
}

func runC11(ctx *Ctx) {
	r := ctx.R
	if ctx.Isolate() {
		return
	}
	r.Rule = "exhaustive: all 1000 MCC x 1100 MNC (100 two-digit + 1000 three-digit) x MSIN lengths 1..10 (digits from VERIF_SEED; plus fixed 0..0, 9..9, 1234567890 for a PLMN slice); " +
		"EncodeSuci output decoded by an independent TS 24.501 9.11.3.4 decoder must give back MCC, MNC, MSIN (format IMSI, type SUCI, routing indicator 0, null scheme, key id 0); octets 1..3 == reference PLMN encoding == nasConvert.PlmnIDToNas; " +
		"wire part: PLMN in the NG Setup request (GlobalRANNodeID, SupportedTAList broadcast PLMN) and in the user-location IE of InitialUEMessage / UplinkNASTransport, SUCI inside Registration and Deregistration Request; " +
		"each case has a distinct (PLMN index, MSIN length, pattern) by construction; all are non-trivial"
	r.Assume("MSIN digits beyond the fixed patterns are pseudo-random from VERIF_SEED (the property's own quantifier text); PLMN and lengths are exhaustive")
	nplmn := 1000 * 1100
	ParallelFor(r, nplmn, func(l *report.Local, i int) {
		mcc, mnc := plmnByIndex(i)
		want := refPLMN(mcc, mnc)
		got := nasConvert.PlmnIDToNas(models.PlmnId{Mcc: mcc, Mnc: mnc})
		if !bytes.Equal(got, want) {
			r.Violate(fmt.Sprintf("PlmnIDToNas/value/mnclen=%d", len(mnc)), fmt.Sprintf("mcc=%s mnc=%s", mcc, mnc), fmt.Sprintf("got %x want %x", got, want), nil)
		}
		for n := 1; n <= 10; n++ {
			pats := 1
			if i%1100 < 3 || i%1100 == 100 || i%1100 == 1099 {
				pats = 4
			}
			for p := 0; p < pats; p++ {
				msin := make([]byte, n)
				h := splitmix(uint64(ctx.Seed)<<32 ^ uint64(i)<<8 ^ uint64(n))
				for k := range msin {
					switch p {
					case 0:
						msin[k] = '0' + byte(h%10)
						h = splitmix(h)
					case 1:
						msin[k] = '0'
					case 2:
						msin[k] = '9'
					case 3:
						msin[k] = "1234567890"[k]
					}
				}
				imsi := mcc + mnc + string(msin)
				var buf []byte
				if perr := recoverErr(func() { buf = stgutg.EncodeSuci([]byte(imsi), len(mnc)).Buffer }); perr != nil {
					r.Violate("EncodeSuci/panic", imsi, perr.Error(), nil)
					continue
				}
				l.CaseN(true, uint64(buf[len(buf)-1])<<8|uint64(buf[3]))
				dm, dn, ds, err := refDecodeSuci(buf)
				if err != nil {
					r.Violate(fmt.Sprintf("EncodeSuci/undecodable/mnclen=%d/msinlen%%2=%d", len(mnc), n%2), imsi, fmt.Sprintf("%v: %x", err, buf), nil)
					continue
				}
				if dm != mcc || dn != mnc || ds != string(msin) {
					r.Violate(fmt.Sprintf("EncodeSuci/value/mnclen=%d/msinlen%%2=%d", len(mnc), n%2), imsi, fmt.Sprintf("decoded mcc=%s mnc=%s msin=%s from %x", dm, dn, ds, buf), nil)
				}
				if !bytes.Equal(buf[1:4], want) {
					r.Violate(fmt.Sprintf("EncodeSuci/plmn-octets/mnclen=%d", len(mnc)), imsi, fmt.Sprintf("got %x want %x", buf[1:4], want), nil)
				}
				// and octet for octet the identity of 9.11.3.4 (spare bits, routing indicator, filler, no octet too many)
				if exp := refnas.EncodeSuci(mcc, mnc, string(msin)); !bytes.Equal(buf, exp) {
					r.Violate(fmt.Sprintf("EncodeSuci/not-the-canonical-identity/mnclen=%d/msinlen%%2=%d", len(mnc), n%2), imsi, fmt.Sprintf("got %x want %x", buf, exp), nil)
				}
			}
		}
	})
	r.Sample("imsi=00101" + "0000000001 mncLen=2 -> EncodeSuci -> independent decoder")
	r.Sample("imsi=999999" + "123456789 mncLen=3")

	// wire part (package-level TestPlmn: one sequential history, in the lead shard)
	if !ctx.Lead() {
		return
	}
	step := 37
	if ctx.Thorough {
		step = 1
	}
	l := r.Local()
	wire := 0
	for i := 0; i < nplmn; i += step {
		mcc, mnc := plmnByIndex(i)
		imsi := mcc + mnc + "0000000001"[:15-3-len(mnc)]
		want := refPLMN(mcc, mnc)
		suci := stgutg.EncodeSuci([]byte(imsi), len(mnc))
		perr := recoverErr(func() {
			pdu := ngapTestpacket.BuildNGSetupRequest(suci.Buffer[1:4])
			ies := pdu.InitiatingMessage.Value.NGSetupRequest.ProtocolIEs.List
			g := ies[0].Value.GlobalRANNodeID.GlobalGNBID.PLMNIdentity.Value
			if !bytes.Equal(g, want) {
				r.Violate("NGSetup/GlobalRANNodeID-plmn", imsi, fmt.Sprintf("got %x want %x", g, want), nil)
			}
			for _, ie := range ies {
				if ie.Value.SupportedTAList != nil {
					for _, ta := range ie.Value.SupportedTAList.List {
						for _, b := range ta.BroadcastPLMNList.List {
							if !bytes.Equal(b.PLMNIdentity.Value, want) {
								r.Violate("NGSetup/BroadcastPLMN", imsi, fmt.Sprintf("got %x want %x", b.PLMNIdentity.Value, want), nil)
							}
						}
					}
				}
			}
			p2 := ngapTestpacket.BuildInitialUEMessage(1, []byte{0x7e}, "")
			for _, ie := range p2.InitiatingMessage.Value.InitialUEMessage.ProtocolIEs.List {
				if u := ie.Value.UserLocationInformation; u != nil {
					if !bytes.Equal(u.UserLocationInformationNR.NRCGI.PLMNIdentity.Value, want) || !bytes.Equal(u.UserLocationInformationNR.TAI.PLMNIdentity.Value, want) {
						r.Violate("InitialUEMessage/ULI-plmn", imsi, fmt.Sprintf("got %x/%x want %x", u.UserLocationInformationNR.NRCGI.PLMNIdentity.Value, u.UserLocationInformationNR.TAI.PLMNIdentity.Value, want), nil)
					}
				}
			}
			p3 := ngapTestpacket.BuildUplinkNasTransport(1, 1, []byte{0x7e})
			for _, ie := range p3.InitiatingMessage.Value.UplinkNASTransport.ProtocolIEs.List {
				if u := ie.Value.UserLocationInformation; u != nil {
					if !bytes.Equal(u.UserLocationInformationNR.NRCGI.PLMNIdentity.Value, want) || !bytes.Equal(u.UserLocationInformationNR.TAI.PLMNIdentity.Value, want) {
						r.Violate("UplinkNASTransport/ULI-plmn", imsi, fmt.Sprintf("got %x/%x want %x", u.UserLocationInformationNR.NRCGI.PLMNIdentity.Value, u.UserLocationInformationNR.TAI.PLMNIdentity.Value, want), nil)
					}
				}
			}
			// SUCI inside the NAS requests: 7e 00 41 <ngksi|type> LV-E identity ; 7e 00 45 <type> LV-E identity
			reg := nasTestpacket.GetRegistrationRequest(nasMessage.RegistrationType5GSInitialRegistration, *suci, nil, nil, nil, nil, nil)
			if len(reg) < 6+len(suci.Buffer) || reg[2] != 0x41 || int(reg[4])<<8|int(reg[5]) != len(suci.Buffer) || !bytes.Equal(reg[6:6+len(suci.Buffer)], suci.Buffer) {
				r.Violate("RegistrationRequest/suci", imsi, fmt.Sprintf("%x", reg), nil)
			}
			der := nasTestpacket.GetDeregistrationRequest(nasMessage.AccessType3GPP, 0, 4, *suci)
			if len(der) < 6+len(suci.Buffer) || der[2] != 0x45 || int(der[4])<<8|int(der[5]) != len(suci.Buffer) || !bytes.Equal(der[6:6+len(suci.Buffer)], suci.Buffer) {
				r.Violate("DeregistrationRequest/suci", imsi, fmt.Sprintf("%x", der), nil)
			}
		})
		if perr != nil {
			r.Violate("wire/panic", imsi, perr.Error(), nil)
		}
		l.Case("wire "+imsi, true, fmt.Sprintf("%x", want))
		wire++
	}
	l.Merge()
	r.Set("wire_plmns", wire)
	r.Sample("wire: imsi=208930000000001 -> NGSetupRequest/InitialUEMessage/UplinkNASTransport PLMN octets, Registration/Deregistration Request SUCI")
	if step != 1 {
		r.Set("wire_part", fmt.Sprintf("every %dth PLMN index (all in thorough)", step))
	}
}
