package props

import (
	"bytes"
	"fmt"
	"net"
	"strings"

	"free5gclib/aper"
	"free5gclib/ngap"
	"free5gclib/ngap/ngapType"
	"mc/refper"
	"mc/report"
	"tglib"
	tp "tglib/ngapTestpacket"
)

func init() { register("C13", "exploration", runC13) }

type c13args struct {
	amf, ran, psi int64
	nas           []byte
	ip            string
	gnbID         []byte
	gnbBits       uint64
	name          string
	plmn          []byte
}

type c13builder struct {
	name  string
	class string // InitiatingMessage | SuccessfulOutcome | UnsuccessfulOutcome
	msg   string // message name (alternative of the class's Value holder)
	proc  int64  // TS 38.413 9.4.7 procedure code (typed from the specification)
	uses  string // which arguments must be found in the encoding: A amf, R ran, N nas, P psi, I ip
	build func(a c13args) ngapType.NGAPPDU
}

// Procedure codes per TS 38.413 clause 9.4.7 (written from the specification, not from ProcedureCode.go).
const (
	pcAMFConfigurationUpdate              = 0
	pcCellTrafficTrace                    = 2
	pcErrorIndication                     = 9
	pcHandoverCancel                      = 10
	pcHandoverNotification                = 11
	pcHandoverPreparation                 = 12
	pcHandoverResourceAllocation          = 13
	pcInitialContextSetup                 = 14
	pcInitialUEMessage                    = 15
	pcLocationReport                      = 18
	pcLocationReportingFailureIndication  = 17
	pcNASNonDeliveryIndication            = 19
	pcNGReset                             = 20
	pcNGSetup                             = 21
	pcOverloadStart                       = 22
	pcOverloadStop                        = 23
	pcPathSwitchRequest                   = 25
	pcPDUSessionResourceModify            = 26
	pcPDUSessionResourceModifyIndication  = 27
	pcPDUSessionResourceRelease           = 28
	pcPDUSessionResourceSetup             = 29
	pcPDUSessionResourceNotify            = 30
	pcRANConfigurationUpdate              = 35
	pcRRCInactiveTransitionReport         = 37
	pcUEContextModification               = 40
	pcUEContextRelease                    = 41
	pcUEContextReleaseRequest             = 42
	pcUERadioCapabilityCheck              = 43
	pcUERadioCapabilityInfoIndication     = 44
	pcUplinkNASTransport                  = 46
	pcUplinkNonUEAssociatedNRPPaTransport = 47
	pcUplinkRANConfigurationTransfer      = 48
	pcUplinkRANStatusTransfer             = 49
	pcUplinkUEAssociatedNRPPaTransport    = 50
)

func c13builders() []c13builder {
	I, S, U := "InitiatingMessage", "SuccessfulOutcome", "UnsuccessfulOutcome"
	b := func(name, class, msg string, proc int64, uses string, f func(a c13args) ngapType.NGAPPDU) c13builder {
		return c13builder{name, class, msg, proc, uses, f}
	}
	return []c13builder{
		b("BuildNGSetupRequest", I, "NGSetupRequest", pcNGSetup, "", func(a c13args) ngapType.NGAPPDU { return tp.BuildNGSetupRequest(a.plmn) }),
		b("BuildNGReset", I, "NGReset", pcNGReset, "", func(a c13args) ngapType.NGAPPDU { return tp.BuildNGReset(nil) }),
		b("BuildNGResetAcknowledge", S, "NGResetAcknowledge", pcNGReset, "", func(a c13args) ngapType.NGAPPDU { return tp.BuildNGResetAcknowledge() }),
		b("BuildInitialUEMessage", I, "InitialUEMessage", pcInitialUEMessage, "RN", func(a c13args) ngapType.NGAPPDU { return tp.BuildInitialUEMessage(a.ran, a.nas, "") }),
		b("BuildErrorIndication", I, "ErrorIndication", pcErrorIndication, "", func(a c13args) ngapType.NGAPPDU { return tp.BuildErrorIndication() }),
		b("BuildUEContextReleaseRequest", I, "UEContextReleaseRequest", pcUEContextReleaseRequest, "ARP", func(a c13args) ngapType.NGAPPDU { return tp.BuildUEContextReleaseRequest(a.amf, a.ran, []int64{a.psi}) }),
		b("BuildUEContextReleaseComplete", S, "UEContextReleaseComplete", pcUEContextRelease, "ARP", func(a c13args) ngapType.NGAPPDU {
			return tp.BuildUEContextReleaseComplete(a.amf, a.ran, []int64{a.psi})
		}),
		b("BuildUEContextModificationResponse", S, "UEContextModificationResponse", pcUEContextModification, "AR", func(a c13args) ngapType.NGAPPDU { return tp.BuildUEContextModificationResponse(a.amf, a.ran) }),
		b("BuildUplinkNasTransport", I, "UplinkNASTransport", pcUplinkNASTransport, "ARN", func(a c13args) ngapType.NGAPPDU { return tp.BuildUplinkNasTransport(a.amf, a.ran, a.nas) }),
		b("BuildInitialContextSetupResponse", S, "InitialContextSetupResponse", pcInitialContextSetup, "ARPI", func(a c13args) ngapType.NGAPPDU {
			return tp.BuildInitialContextSetupResponse(a.amf, a.ran, a.psi, a.ip, nil)
		}),
		// the optional failed-to-setup list given as well: naming another session, and naming the very session that is set up
		b("BuildInitialContextSetupResponse(failed list: another session)", S, "InitialContextSetupResponse", pcInitialContextSetup, "ARPI", func(a c13args) ngapType.NGAPPDU {
			fl := &ngapType.PDUSessionResourceFailedToSetupListCxtRes{List: []ngapType.PDUSessionResourceFailedToSetupItemCxtRes{{PDUSessionID: ngapType.PDUSessionID{Value: (a.psi + 1) % 256}, PDUSessionResourceSetupUnsuccessfulTransfer: aper.OctetString{0x00, 0x40}}}}
			return tp.BuildInitialContextSetupResponse(a.amf, a.ran, a.psi, a.ip, fl)
		}),
		b("BuildInitialContextSetupResponse(failed list: the same session)", S, "InitialContextSetupResponse", pcInitialContextSetup, "ARPI", func(a c13args) ngapType.NGAPPDU {
			id := a.psi
			if id < 0 || id > 255 {
				id = 7
			}
			fl := &ngapType.PDUSessionResourceFailedToSetupListCxtRes{List: []ngapType.PDUSessionResourceFailedToSetupItemCxtRes{{PDUSessionID: ngapType.PDUSessionID{Value: id}, PDUSessionResourceSetupUnsuccessfulTransfer: aper.OctetString{0x00, 0x40}}}}
			return tp.BuildInitialContextSetupResponse(a.amf, a.ran, a.psi, a.ip, fl)
		}),
		b("BuildInitialContextSetupFailure", U, "InitialContextSetupFailure", pcInitialContextSetup, "AR", func(a c13args) ngapType.NGAPPDU { return tp.BuildInitialContextSetupFailure(a.amf, a.ran) }),
		b("BuildPathSwitchRequest", I, "PathSwitchRequest", pcPathSwitchRequest, "AR", func(a c13args) ngapType.NGAPPDU { return tp.BuildPathSwitchRequest(a.amf, a.ran) }),
		b("BuildHandoverRequestAcknowledge", S, "HandoverRequestAcknowledge", pcHandoverResourceAllocation, "AR", func(a c13args) ngapType.NGAPPDU { return tp.BuildHandoverRequestAcknowledge(a.amf, a.ran) }),
		b("BuildHandoverFailure", U, "HandoverFailure", pcHandoverResourceAllocation, "A", func(a c13args) ngapType.NGAPPDU { return tp.BuildHandoverFailure(a.amf) }),
		b("BuildPDUSessionResourceReleaseResponse", S, "PDUSessionResourceReleaseResponse", pcPDUSessionResourceRelease, "", func(a c13args) ngapType.NGAPPDU { return tp.BuildPDUSessionResourceReleaseResponse() }),
		b("BuildAMFConfigurationUpdateFailure", U, "AMFConfigurationUpdateFailure", pcAMFConfigurationUpdate, "", func(a c13args) ngapType.NGAPPDU { return tp.BuildAMFConfigurationUpdateFailure() }),
		b("BuildUERadioCapabilityCheckRequest", I, "UERadioCapabilityCheckRequest", pcUERadioCapabilityCheck, "AR", func(a c13args) ngapType.NGAPPDU { return tp.BuildUERadioCapabilityCheckRequest(a.amf, a.ran) }),
		b("BuildUERadioCapabilityCheckResponse", S, "UERadioCapabilityCheckResponse", pcUERadioCapabilityCheck, "", func(a c13args) ngapType.NGAPPDU { return tp.BuildUERadioCapabilityCheckResponse() }),
		b("BuildHandoverCancel", I, "HandoverCancel", pcHandoverCancel, "", func(a c13args) ngapType.NGAPPDU { return tp.BuildHandoverCancel() }),
		b("BuildLocationReportingFailureIndication", I, "LocationReportingFailureIndication", pcLocationReportingFailureIndication, "", func(a c13args) ngapType.NGAPPDU { return tp.BuildLocationReportingFailureIndication() }),
		b("BuildPDUSessionResourceSetupResponse", S, "PDUSessionResourceSetupResponse", pcPDUSessionResourceSetup, "ARI", func(a c13args) ngapType.NGAPPDU { return tp.BuildPDUSessionResourceSetupResponse(a.amf, a.ran, a.ip) }),
		b("BuildPDUSessionResourceSetupResponseForPaging", S, "PDUSessionResourceSetupResponse", pcPDUSessionResourceSetup, "ARI", func(a c13args) ngapType.NGAPPDU {
			return tp.BuildPDUSessionResourceSetupResponseForPaging(a.amf, a.ran, a.ip)
		}),
		b("BuildPDUSessionResourceModifyResponse", S, "PDUSessionResourceModifyResponse", pcPDUSessionResourceModify, "AR", func(a c13args) ngapType.NGAPPDU { return tp.BuildPDUSessionResourceModifyResponse(a.amf, a.ran) }),
		b("BuildPDUSessionResourceNotify", I, "PDUSessionResourceNotify", pcPDUSessionResourceNotify, "", func(a c13args) ngapType.NGAPPDU { return tp.BuildPDUSessionResourceNotify() }),
		b("BuildPDUSessionResourceModifyIndication", I, "PDUSessionResourceModifyIndication", pcPDUSessionResourceModifyIndication, "AR", func(a c13args) ngapType.NGAPPDU { return tp.BuildPDUSessionResourceModifyIndication(a.amf, a.ran) }),
		b("BuildUEContextModificationFailure", U, "UEContextModificationFailure", pcUEContextModification, "AR", func(a c13args) ngapType.NGAPPDU { return tp.BuildUEContextModificationFailure(a.amf, a.ran) }),
		b("BuildRRCInactiveTransitionReport", I, "RRCInactiveTransitionReport", pcRRCInactiveTransitionReport, "", func(a c13args) ngapType.NGAPPDU { return tp.BuildRRCInactiveTransitionReport() }),
		b("BuildHandoverNotify", I, "HandoverNotify", pcHandoverNotification, "AR", func(a c13args) ngapType.NGAPPDU { return tp.BuildHandoverNotify(a.amf, a.ran) }),
		b("BuildUplinkRanStatusTransfer", I, "UplinkRANStatusTransfer", pcUplinkRANStatusTransfer, "AR", func(a c13args) ngapType.NGAPPDU { return tp.BuildUplinkRanStatusTransfer(a.amf, a.ran) }),
		b("BuildNasNonDeliveryIndication", I, "NASNonDeliveryIndication", pcNASNonDeliveryIndication, "ARN", func(a c13args) ngapType.NGAPPDU {
			return tp.BuildNasNonDeliveryIndication(a.amf, a.ran, aper.OctetString(a.nas))
		}),
		b("BuildRanConfigurationUpdate", I, "RANConfigurationUpdate", pcRANConfigurationUpdate, "", func(a c13args) ngapType.NGAPPDU { return tp.BuildRanConfigurationUpdate() }),
		b("BuildRanConfigurationUpdateAck", S, "RANConfigurationUpdateAcknowledge", pcRANConfigurationUpdate, "", func(a c13args) ngapType.NGAPPDU { return tp.BuildRanConfigurationUpdateAck(nil) }),
		b("BuildRanConfigurationUpdateFailure", U, "RANConfigurationUpdateFailure", pcRANConfigurationUpdate, "", func(a c13args) ngapType.NGAPPDU { return tp.BuildRanConfigurationUpdateFailure(nil, nil) }),
		b("BuildUplinkRanConfigurationTransfer", I, "UplinkRANConfigurationTransfer", pcUplinkRANConfigurationTransfer, "", func(a c13args) ngapType.NGAPPDU { return tp.BuildUplinkRanConfigurationTransfer() }),
		b("BuildUplinkUEAssociatedNRPPATransport", I, "UplinkUEAssociatedNRPPaTransport", pcUplinkUEAssociatedNRPPaTransport, "", func(a c13args) ngapType.NGAPPDU { return tp.BuildUplinkUEAssociatedNRPPATransport() }),
		b("BuildUplinkNonUEAssociatedNRPPATransport", I, "UplinkNonUEAssociatedNRPPaTransport", pcUplinkNonUEAssociatedNRPPaTransport, "", func(a c13args) ngapType.NGAPPDU { return tp.BuildUplinkNonUEAssociatedNRPPATransport() }),
		b("BuildLocationReport", I, "LocationReport", pcLocationReport, "", func(a c13args) ngapType.NGAPPDU { return tp.BuildLocationReport() }),
		b("BuildUERadioCapabilityInfoIndication", I, "UERadioCapabilityInfoIndication", pcUERadioCapabilityInfoIndication, "", func(a c13args) ngapType.NGAPPDU { return tp.BuildUERadioCapabilityInfoIndication() }),
		b("BuildAMFConfigurationUpdateAcknowledge", S, "AMFConfigurationUpdateAcknowledge", pcAMFConfigurationUpdate, "", func(a c13args) ngapType.NGAPPDU { return tp.BuildAMFConfigurationUpdateAcknowledge() }),
		b("BuildAMFConfigurationUpdate", I, "AMFConfigurationUpdate", pcAMFConfigurationUpdate, "", func(a c13args) ngapType.NGAPPDU {
			return tp.BuildAMFConfigurationUpdate(a.name, []ngapType.ServedGUAMIItem{c13guami()}, []ngapType.PLMNSupportItem{c13plmnSupport()}, 255, nil, nil, nil)
		}),
		b("BuildHandoverRequired", I, "HandoverRequired", pcHandoverPreparation, "AR", func(a c13args) ngapType.NGAPPDU {
			return tp.BuildHandoverRequired(a.amf, a.ran, []byte{0, 1, 2}, []byte{1, 2, 3, 4, 0x50})
		}),
		b("BuildCellTrafficTrace", I, "CellTrafficTrace", pcCellTrafficTrace, "AR", func(a c13args) ngapType.NGAPPDU { return tp.BuildCellTrafficTrace(a.amf, a.ran) }),
		b("BuildInitialContextSetupResponseForRegistraionTest", S, "InitialContextSetupResponse", pcInitialContextSetup, "AR", func(a c13args) ngapType.NGAPPDU {
			return tp.BuildInitialContextSetupResponseForRegistraionTest(a.amf, a.ran)
		}),
		b("BuildPDUSessionResourceSetupResponseForRegistrationTest", S, "PDUSessionResourceSetupResponse", pcPDUSessionResourceSetup, "ARPI", func(a c13args) ngapType.NGAPPDU {
			return tp.BuildPDUSessionResourceSetupResponseForRegistrationTest(a.amf, a.ran, a.psi, a.ip)
		}),
		b("BuildPDUSessionResourceReleaseResponseForReleaseTest", S, "PDUSessionResourceReleaseResponse", pcPDUSessionResourceRelease, "ARP", func(a c13args) ngapType.NGAPPDU {
			return tp.BuildPDUSessionResourceReleaseResponseForReleaseTest(a.amf, a.ran, a.psi)
		}),
		b("BuildNGSetupResponse", S, "NGSetupResponse", pcNGSetup, "", func(a c13args) ngapType.NGAPPDU {
			return tp.BuildNGSetupResponse(a.name, []ngapType.ServedGUAMIItem{c13guami()}, []ngapType.PLMNSupportItem{c13plmnSupport()}, 255)
		}),
		b("BuildPDUSessionResourceModifyConfirm", S, "PDUSessionResourceModifyConfirm", pcPDUSessionResourceModifyIndication, "AR", func(a c13args) ngapType.NGAPPDU {
			var l ngapType.PDUSessionResourceModifyListModCfm
			l.List = append(l.List, ngapType.PDUSessionResourceModifyItemModCfm{PDUSessionID: ngapType.PDUSessionID{Value: 1}, PDUSessionResourceModifyConfirmTransfer: tp.GetPDUSessionResourceModifyConfirmTransfer([]int64{1})})
			var f ngapType.PDUSessionResourceFailedToModifyListModCfm
			return tp.BuildPDUSessionResourceModifyConfirm(a.amf, a.ran, l, f, nil)
		}),
		b("BuildPDUSessionResourceReleaseCommand", I, "PDUSessionResourceReleaseCommand", pcPDUSessionResourceRelease, "ARN", func(a c13args) ngapType.NGAPPDU {
			var l ngapType.PDUSessionResourceToReleaseListRelCmd
			l.List = append(l.List, ngapType.PDUSessionResourceToReleaseItemRelCmd{PDUSessionID: ngapType.PDUSessionID{Value: 1}, PDUSessionResourceReleaseCommandTransfer: tp.GetPDUSessionResourceReleaseCommandTransfer()})
			return tp.BuildPDUSessionResourceReleaseCommand(a.amf, a.ran, nil, a.nas, l)
		}),
		b("BuildOverloadStart", I, "OverloadStart", pcOverloadStart, "", func(a c13args) ngapType.NGAPPDU {
			act := ngapType.OverloadAction{Value: ngapType.OverloadActionPresentRejectNonEmergencyMoDt}
			ind := int64(50)
			return tp.BuildOverloadStart(&act, &ind, nil)
		}),
		b("BuildOverloadStop", I, "OverloadStop", pcOverloadStop, "", func(a c13args) ngapType.NGAPPDU { return tp.BuildOverloadStop() }),
	}
}

func c13guami() ngapType.ServedGUAMIItem {
	var g ngapType.ServedGUAMIItem
	g.GUAMI.PLMNIdentity.Value = aper.OctetString{0x02, 0xf8, 0x39}
	g.GUAMI.AMFRegionID.Value = aper.BitString{Bytes: []byte{0xca}, BitLength: 8}
	g.GUAMI.AMFSetID.Value = aper.BitString{Bytes: []byte{0xfe, 0x00}, BitLength: 10}
	g.GUAMI.AMFPointer.Value = aper.BitString{Bytes: []byte{0x00}, BitLength: 6}
	return g
}

func c13plmnSupport() ngapType.PLMNSupportItem {
	var p ngapType.PLMNSupportItem
	p.PLMNIdentity.Value = aper.OctetString{0x02, 0xf8, 0x39}
	var s ngapType.SliceSupportItem
	s.SNSSAI.SST.Value = aper.OctetString{1}
	p.SliceSupportList.List = append(p.SliceSupportList.List, s)
	return p
}

// collect gathers every value found under a component name anywhere in the tree (descends into transfers too).
func collect(c *refper.Codec, n *refper.Node, name string, out *[]*refper.Node) {
	if n == nil {
		return
	}
	for i, k := range n.Kids {
		if i < len(n.Names) && n.Names[i] == name {
			*out = append(*out, k)
		}
		collect(c, k, name, out)
	}
}

// expected mandatory IEs (id, criticality) of the messages the emulator sends: TS 38.413 clause 9.2, typed from the specification.
// criticality: 0 reject, 1 ignore, 2 notify.
var c13mandatory = map[string][][2]int64{
	"NGSetupRequest":                    {{27, 0}, {102, 0}, {21, 1}},
	"InitialUEMessage":                  {{85, 0}, {38, 0}, {121, 0}, {90, 1}},
	"UplinkNASTransport":                {{10, 0}, {85, 0}, {38, 0}, {121, 1}},
	"InitialContextSetupResponse":       {{10, 1}, {85, 1}},
	"PDUSessionResourceSetupResponse":   {{10, 1}, {85, 1}},
	"PDUSessionResourceReleaseResponse": {{10, 1}, {85, 1}, {70, 1}},
	"UEContextReleaseComplete":          {{10, 1}, {85, 1}},
}

// message criticality of the procedure (TS 38.413 9.4.? elementary procedure definitions)
var c13msgCrit = map[string]int64{"NGSetupRequest": 0, "InitialUEMessage": 1, "UplinkNASTransport": 1, "InitialContextSetupResponse": 0,
	"PDUSessionResourceSetupResponse": 0, "PDUSessionResourceReleaseResponse": 0, "UEContextReleaseComplete": 0}

type c13wrapper struct {
	name  string
	class string
	msg   string
	proc  int64
	uses  string
	call  func(a c13args) ([]byte, error)
}

func c13wrappers() []c13wrapper {
	I, S := "InitiatingMessage", "SuccessfulOutcome"
	return []c13wrapper{
		{"GetNGSetupRequest", I, "NGSetupRequest", pcNGSetup, "G", func(a c13args) ([]byte, error) { return tglib.GetNGSetupRequest(a.gnbID, a.plmn, a.gnbBits, a.name) }},
		{"GetInitialUEMessage", I, "InitialUEMessage", pcInitialUEMessage, "RN", func(a c13args) ([]byte, error) { return tglib.GetInitialUEMessage(a.ran, a.nas, "") }},
		{"GetUplinkNASTransport", I, "UplinkNASTransport", pcUplinkNASTransport, "ARN", func(a c13args) ([]byte, error) { return tglib.GetUplinkNASTransport(a.amf, a.ran, a.nas) }},
		{"GetInitialContextSetupResponse", S, "InitialContextSetupResponse", pcInitialContextSetup, "AR", func(a c13args) ([]byte, error) { return tglib.GetInitialContextSetupResponse(a.amf, a.ran) }},
		{"GetInitialContextSetupResponseForServiceRequest", S, "InitialContextSetupResponse", pcInitialContextSetup, "ARPI", func(a c13args) ([]byte, error) {
			return tglib.GetInitialContextSetupResponseForServiceRequest(a.amf, a.ran, a.psi, a.ip)
		}},
		{"GetPDUSessionResourceSetupResponse", S, "PDUSessionResourceSetupResponse", pcPDUSessionResourceSetup, "ARPI", func(a c13args) ([]byte, error) {
			return tglib.GetPDUSessionResourceSetupResponse(a.amf, a.ran, a.psi, a.ip)
		}},
		{"GetUEContextReleaseComplete", S, "UEContextReleaseComplete", pcUEContextRelease, "ARP", func(a c13args) ([]byte, error) {
			return tglib.GetUEContextReleaseComplete(a.amf, a.ran, []int64{a.psi})
		}},
		{"GetUEContextReleaseComplete(nil)", S, "UEContextReleaseComplete", pcUEContextRelease, "AR", func(a c13args) ([]byte, error) { return tglib.GetUEContextReleaseComplete(a.amf, a.ran, nil) }},
		{"GetUEContextReleaseRequest", I, "UEContextReleaseRequest", pcUEContextReleaseRequest, "ARP", func(a c13args) ([]byte, error) { return tglib.GetUEContextReleaseRequest(a.amf, a.ran, []int64{a.psi}) }},
		{"GetPDUSessionResourceReleaseResponse", S, "PDUSessionResourceReleaseResponse", pcPDUSessionResourceRelease, "ARP", func(a c13args) ([]byte, error) {
			return tglib.GetPDUSessionResourceReleaseResponse(a.amf, a.ran, a.psi)
		}},
		{"GetPathSwitchRequest", I, "PathSwitchRequest", pcPathSwitchRequest, "AR", func(a c13args) ([]byte, error) { return tglib.GetPathSwitchRequest(a.amf, a.ran) }},
		{"GetHandoverRequired", I, "HandoverRequired", pcHandoverPreparation, "AR", func(a c13args) ([]byte, error) {
			return tglib.GetHandoverRequired(a.amf, a.ran, []byte{0, 1, 2}, []byte{1, 2, 3, 4, 0x50})
		}},
		{"GetHandoverRequestAcknowledge", S, "HandoverRequestAcknowledge", pcHandoverResourceAllocation, "AR", func(a c13args) ([]byte, error) { return tglib.GetHandoverRequestAcknowledge(a.amf, a.ran) }},
		{"GetHandoverNotify", I, "HandoverNotify", pcHandoverNotification, "AR", func(a c13args) ([]byte, error) { return tglib.GetHandoverNotify(a.amf, a.ran) }},
		{"GetPDUSessionResourceSetupResponseForPaging", S, "PDUSessionResourceSetupResponse", pcPDUSessionResourceSetup, "ARI", func(a c13args) ([]byte, error) {
			return tglib.GetPDUSessionResourceSetupResponseForPaging(a.amf, a.ran, a.ip)
		}},
	}
}

// c13verify decodes b with the reference decoder and the library and checks class, procedure and carried arguments.
var c13held held // the octets returned by the previous builder call, looked at again after the next one

func c13verify(r *report.Report, codec *refper.Codec, s *refper.Schema, who, class, msg string, proc int64, uses string, a c13args, b []byte, cs string) {
	tree, err := codec.Decode("NGAPPDU", refper.PDUTag, b)
	if err != nil {
		r.Violate("builder/"+who+"/reference-cannot-decode", cs, err.Error()+" on "+shortHex(b), nil)
		return
	}
	// what was built is THE encoding of the value it decodes to (padding and spare bits zero, shortest length forms)
	if re, rerr := codec.Encode("NGAPPDU", refper.PDUTag, tree); rerr != nil || !bytes.Equal(re, b) {
		r.Violate("builder/"+who+"/not-the-canonical-encoding", cs, fmt.Sprintf("built %s; its value encodes as %s (%v)", shortHex(b), shortHex(re), rerr), nil)
	}
	lt, lerr, lp := libDecodePDU(s, b)
	if lp || lerr != nil {
		r.Violate("builder/"+who+"/library-cannot-decode", cs, fmt.Sprint(lerr), nil)
	} else if !refper.Equal(lt, tree) {
		r.Violate("builder/"+who+"/decoders-disagree", cs, refper.FirstDiff(lt, tree, ""), nil)
	}
	if len(tree.Names) != 1 || tree.Names[0] != class {
		r.Violate("builder/"+who+"/message-class", cs, fmt.Sprintf("got %v want %s", tree.Names, class), nil)
		return
	}
	m := tree.Kids[0]
	if pc := m.Path("ProcedureCode.Value"); pc == nil || pc.I != proc {
		r.Violate("builder/"+who+"/procedure-code", cs, fmt.Sprintf("got %s want %d", pc, proc), nil)
	}
	body := m.Get("Value")
	if body == nil || len(body.Names) != 1 || body.Names[0] != msg {
		r.Violate("builder/"+who+"/message-type", cs, fmt.Sprintf("got %v want %s", body, msg), nil)
		return
	}
	ies := body.Kids[0].Path("ProtocolIEs.List")
	find := func(name string) []*refper.Node {
		var out []*refper.Node
		collect(codec, body, name, &out)
		return out
	}
	checkInt := func(letter, comp string, want int64) {
		if !strings.Contains(uses, letter) {
			return
		}
		vs := find(comp)
		if comp == "AMFUENGAPID" { // PathSwitchRequest carries it as Source AMF UE NGAP ID (same type, IE id 100)
			vs = append(vs, find("SourceAMFUENGAPID")...)
		}
		if len(vs) == 0 {
			r.Violate("builder/"+who+"/missing-"+comp, cs, "no "+comp+" in the encoding", nil)
			return
		}
		if comp == "PDUSessionID" && strings.Contains(who, "failed list: another session") {
			// this entry point is also given a second session (want+1) for the failed-to-setup list: the argument's own
			// identity must be there, and nothing but the two identities given
			seenOwn := false
			for _, v := range vs {
				x := v.Get("Value")
				if x != nil && x.I == want {
					seenOwn = true
				} else if x == nil || x.I != (want+1)%256 {
					r.Violate("builder/"+who+"/"+comp+"-differs-from-argument", cs, fmt.Sprintf("encoded %s, arguments %d and %d", v, want, (want+1)%256), nil)
				}
			}
			if !seenOwn {
				r.Violate("builder/"+who+"/missing-"+comp, cs, fmt.Sprintf("the session %d that was set up is not in the encoding", want), nil)
			}
			return
		}
		for _, v := range vs {
			if x := v.Get("Value"); x == nil || x.I != want {
				r.Violate("builder/"+who+"/"+comp+"-differs-from-argument", cs, fmt.Sprintf("encoded %s, argument %d", v, want), nil)
			}
		}
	}
	checkInt("A", "AMFUENGAPID", a.amf)
	checkInt("R", "RANUENGAPID", a.ran)
	checkInt("P", "PDUSessionID", a.psi)
	if strings.Contains(uses, "N") {
		vs := find("NASPDU")
		if len(vs) != 1 || !bytes.Equal(vs[0].Get("Value").B, a.nas) {
			r.Violate("builder/"+who+"/NASPDU-differs-from-argument", cs, fmt.Sprintf("found %d NAS-PDU IEs; argument %d octets", len(vs), len(a.nas)), nil)
		}
	}
	if strings.Contains(uses, "I") {
		// the GTP address sits inside the setup response transfer octet string
		want := net.ParseIP(a.ip).To4()
		okFound := false
		var trs []*refper.Node
		collect(codec, body, "PDUSessionResourceSetupResponseTransfer", &trs)
		for _, t := range trs {
			tt, err := codec.Decode("PDUSessionResourceSetupResponseTransfer", "valueExt", t.B)
			if err != nil {
				r.Violate("builder/"+who+"/transfer-undecodable", cs, err.Error(), nil)
				continue
			}
			addr := tt.Path("QosFlowPerTNLInformation.UPTransportLayerInformation.GTPTunnel.TransportLayerAddress.Value")
			if addr != nil && addr.NBits == 32 && bytes.Equal(addr.B, want) {
				okFound = true
			} else {
				r.Violate("builder/"+who+"/GTP-address-differs-from-argument", cs, fmt.Sprintf("encoded %s argument %s", addr, a.ip), nil)
			}
		}
		if !okFound && len(trs) == 0 {
			r.Violate("builder/"+who+"/missing-transfer", cs, "no setup response transfer", nil)
		}
	}
	if strings.Contains(uses, "G") {
		g := find("GlobalGNBID")
		if len(g) != 1 {
			r.Violate("builder/"+who+"/missing-GlobalGNBID", cs, "", nil)
		} else {
			id := g[0].Path("GNBID.GNBID")
			wantB := append([]byte{}, a.gnbID...)
			if a.gnbBits%8 != 0 && len(wantB) > 0 {
				wantB[len(wantB)-1] &= 0xff << (8 - a.gnbBits%8)
			}
			if id == nil || id.NBits != a.gnbBits || !bytes.Equal(id.B, wantB) {
				r.Violate("builder/"+who+"/gNB-id-differs-from-argument", cs, fmt.Sprintf("encoded %s argument %x/%d", id, a.gnbID, a.gnbBits), nil)
			}
			if p := g[0].Path("PLMNIdentity.Value"); p == nil || !bytes.Equal(p.B, a.plmn) {
				r.Violate("builder/"+who+"/PLMN-differs-from-argument", cs, fmt.Sprintf("encoded %s argument %x", p, a.plmn), nil)
			}
		}
		// every PLMN of the request, also the deeper ones: the broadcast PLMNs of the supported TA list
		nb := 0
		for _, bl := range find("BroadcastPLMNList") {
			if lst := bl.Get("List"); lst != nil {
				for _, bp := range lst.Kids {
					nb++
					if p := bp.Path("PLMNIdentity.Value"); p == nil || !bytes.Equal(p.B, a.plmn) {
						r.Violate("builder/"+who+"/broadcast-PLMN-differs-from-argument", cs, fmt.Sprintf("supported TA list broadcasts %s, argument %x", p, a.plmn), nil)
					}
				}
			}
		}
		if msg == "NGSetupRequest" && nb == 0 {
			// (also the guard against this loop silently finding nothing to compare)
			r.Violate("builder/"+who+"/no-broadcast-PLMN-in-the-supported-TA-list", cs, "the NG Setup Request carries no broadcast PLMN at all", nil)
		}
		if n := find("RANNodeName"); len(n) != 1 || string(n[0].Get("Value").B) != a.name {
			r.Violate("builder/"+who+"/gNB-name-differs-from-argument", cs, fmt.Sprintf("%v vs %q", n, a.name), nil)
		}
	}
	// PLMN announced at NG Setup is the PLMN of every PLMNIdentity the gNB side fills from it (ULI, TAI, GlobalRANNodeID)
	for _, comp := range []string{"UserLocationInformationNR"} {
		for _, u := range find(comp) {
			for _, p := range []string{"NRCGI.PLMNIdentity.Value", "TAI.PLMNIdentity.Value"} {
				if v := u.Path(p); v == nil || !bytes.Equal(v.B, a.plmn) {
					r.Violate("builder/"+who+"/ULI-PLMN-not-the-announced-one", cs, fmt.Sprintf("%s = %s, announced %x", p, v, a.plmn), nil)
				}
			}
		}
	}
	// mandatory IEs and criticalities of the emulator's own messages
	if mand, ok := c13mandatory[msg]; ok && ies != nil && strings.HasPrefix(who, "Get") {
		for _, mc := range mand {
			found := false
			for _, ie := range ies.Kids {
				if id := ie.Path("Id.Value"); id != nil && id.I == mc[0] {
					found = true
					if c := ie.Path("Criticality.Value"); c == nil || c.I != mc[1] {
						r.Violate(fmt.Sprintf("builder/%s/IE-%d-criticality", who, mc[0]), cs, fmt.Sprintf("got %s want %d", c, mc[1]), nil)
					}
				}
			}
			if !found {
				r.Violate(fmt.Sprintf("builder/%s/mandatory-IE-%d-missing", who, mc[0]), cs, "", nil)
			}
		}
		if c := m.Path("Criticality.Value"); c == nil || c.I != c13msgCrit[msg] {
			r.Violate("builder/"+who+"/message-criticality", cs, fmt.Sprintf("got %s want %d", c, c13msgCrit[msg]), nil)
		}
	}
}

func runC13(ctx *Ctx) {
	r := ctx.R
	s, err := loadSchema()
	if err != nil {
		r.HarnessError(err.Error())
		return
	}
	codec := &refper.Codec{S: s}
	amfs := []int64{1, 0, 1 << 32, 1<<40 - 1, 255, 65536}
	rans := []int64{1, 0, 1<<32 - 1, 65535, 1 << 24}
	psis := []int64{1, 0, 15, 255, 16}
	ips := []string{"192.168.61.3", "0.0.0.0", "255.255.255.255", "1.2.3.4", "::ffff:10.45.0.7"} // (the last: an IPv4 address written in IPv4-mapped form is still that IPv4 address)
	nasLens := []int{20, 0, 1, 126, 127, 128, 255, 256, 2000, 5000, 16379, 16380, 16381, 16382, 16383, 16384, 16385, 32764, 32765, 32766} // (the last ones put the IE value and the message value on both sides of a 16K fragment boundary)
	if ctx.Thorough {
		nasLens = nil
		for n := 0; n <= 5000; n++ {
			nasLens = append(nasLens, n)
		}
	} else {
		for n := 100; n <= 300; n++ {
			nasLens = append(nasLens, n)
		}
		nasLens = append(nasLens, 16383, 16384)
	}
	plmns := [][]byte{{0x00, 0xf1, 0x10}, {0x02, 0xf8, 0x39}, {0x13, 0x00, 0x14}, {0x99, 0x99, 0x99}}
	def := c13args{amf: amfs[0], ran: rans[0], psi: psis[0], nas: pattern(2, nasLens[0]), ip: ips[0], gnbID: []byte{0, 1, 2}, gnbBits: 24, name: "open5gs", plmn: plmns[0]}
	r.Rule = fmt.Sprintf("14 build-and-encode wrappers of tglib (+1 variant) and 50 builders of ngapTestpacket (the two empty stubs excluded): for each, the default argument vector and every vector with one argument moved through its alphabet "+
		"(AMF-UE-NGAP-ID %v, RAN-UE-NGAP-ID %v, PDU session id %v, IPv4 %v, NAS-PDU lengths (%d values), gNB id bit lengths 22..32, names, PLMN announced by a preceding NG Setup build (history of depth 2) from %d PLMNs) plus all pairs for the wrappers; "+
		"each PLMN also announced through one NG Setup entry point only (library builder, then every wrapper; wrapper, then every library builder); out-of-range identifiers {-1, 2^40 | 2^32 | 256} must be refused; oracle: encoding decoded by the independent reference decoder and by the library (trees equal), class/procedure code (typed from TS 38.413 9.4.7), carried ids/NAS-PDU/PSI/gNB id/name/GTP address/PLMN == arguments, mandatory IEs and criticalities of the emulator's 7 message types; distinct = distinct (entry point, argument vector); non-trivial = non-default vector", amfs, rans, psis, ips, len(nasLens), len(plmns))
	r.Assume("procedure codes, IE ids and criticalities in c13.go are typed from TS 38.413 (9.2, 9.4.7) from the author's reading", "package-level PLMN state of ngapTestpacket makes the sweep sequential")
	l := r.Local()
	builders := c13builders()
	wrappers := c13wrappers()
	r.Set("builders", len(builders))
	r.Set("wrappers", len(wrappers))
	// variants of one dimension
	type variant struct {
		label string
		a     c13args
		neg   string // non-empty: argument that must be refused
	}
	vary := func(base c13args) []variant {
		vs := []variant{{"default", base, ""}}
		for _, v := range amfs[1:] {
			x := base
			x.amf = v
			vs = append(vs, variant{fmt.Sprintf("amf=%d", v), x, ""})
		}
		for _, v := range rans[1:] {
			x := base
			x.ran = v
			vs = append(vs, variant{fmt.Sprintf("ran=%d", v), x, ""})
		}
		for _, v := range psis[1:] {
			x := base
			x.psi = v
			vs = append(vs, variant{fmt.Sprintf("psi=%d", v), x, ""})
		}
		for _, v := range ips[1:] {
			x := base
			x.ip = v
			vs = append(vs, variant{"ip=" + v, x, ""})
		}
		for _, n := range nasLens[1:] {
			x := base
			x.nas = pattern(2, n)
			vs = append(vs, variant{fmt.Sprintf("nasLen=%d", n), x, ""})
		}
		for _, v := range []int64{-1, 1 << 40} {
			x := base
			x.amf = v
			vs = append(vs, variant{fmt.Sprintf("amf=%d", v), x, "A"})
		}
		for _, v := range []int64{-1, 1 << 32} {
			x := base
			x.ran = v
			vs = append(vs, variant{fmt.Sprintf("ran=%d", v), x, "R"})
		}
		for _, v := range []int64{-1, 256} {
			x := base
			x.psi = v
			vs = append(vs, variant{fmt.Sprintf("psi=%d", v), x, "P"})
		}
		return vs
	}
	run := func(who, class, msg string, proc int64, uses string, call func(a c13args) ([]byte, error), v variant, hist string) {
		// only vary what the entry point takes
		cs := fmt.Sprintf("%s%s %s", hist, who, v.label)
		var b []byte
		var err error
		perr := recoverErr(func() { b, err = call(v.a) })
		l.Case(cs, v.label != "default", fmt.Sprint(len(b), err != nil))
		if v.neg != "" {
			if !strings.Contains(uses, v.neg) {
				return
			}
			if perr != nil {
				r.Violate("builder/"+who+"/out-of-range-panic", cs, perr.Error(), nil)
			} else if err == nil {
				r.Violate("builder/"+who+"/out-of-range-identifier-encoded", cs, "encoded to "+shortHex(b), nil)
			}
			return
		}
		if perr != nil {
			r.Violate("builder/"+who+"/panic", cs, perr.Error(), nil)
			return
		}
		if err != nil {
			r.Violate("builder/"+who+"/encode-error/"+errClass(err), cs, err.Error(), nil)
			return
		}
		c13held.next(r, "builder/result-changed-by-a-later-call", b, cs)
		c13verify(r, codec, s, who, class, msg, proc, uses, v.a, b, cs)
	}
	relevant := func(uses string, v variant) bool {
		switch {
		case v.label == "default":
			return true
		case strings.HasPrefix(v.label, "amf="):
			return strings.Contains(uses, "A")
		case strings.HasPrefix(v.label, "ran="):
			return strings.Contains(uses, "R")
		case strings.HasPrefix(v.label, "psi="):
			return strings.Contains(uses, "P")
		case strings.HasPrefix(v.label, "ip="):
			return strings.Contains(uses, "I")
		case strings.HasPrefix(v.label, "nasLen="):
			return strings.Contains(uses, "N")
		}
		return true
	}
	for pi, plmn := range plmns {
		// history of depth 2: NG Setup build announcing plmn, then the message
		base := def
		base.plmn = plmn
		tp.BuildNGSetupRequest(plmn)
		hist := fmt.Sprintf("[NGSetup plmn=%x] ", plmn)
		for _, w := range wrappers {
			for _, v := range vary(base) {
				if pi > 0 && v.label != "default" {
					continue
				}
				if !relevant(w.uses, v) {
					continue
				}
				run(w.name, w.class, w.msg, w.proc, w.uses, w.call, v, hist)
				if w.name == "GetNGSetupRequest" {
					tp.BuildNGSetupRequest(plmn)
				}
			}
		}
		for _, bd := range builders {
			bd := bd
			call := func(a c13args) ([]byte, error) { return ngap.Encoder(bd.build(a)) }
			for _, v := range vary(base) {
				if pi > 0 && v.label != "default" {
					continue
				}
				if !relevant(bd.uses, v) || (strings.HasPrefix(v.label, "nasLen=") && len(v.a.nas) > 300 && len(v.a.nas) != 5000 && !ctx.Thorough) {
					continue
				}
				run(bd.name, bd.class, bd.msg, bd.proc, bd.uses, call, v, hist)
				if bd.name == "BuildNGSetupRequest" {
					tp.BuildNGSetupRequest(plmn)
				}
			}
		}
	}
	// the two NG Setup entry points crossed with the two families: the PLMN announced ONLY through the library builder,
	// then every wrapper; announced ONLY through the wrapper, then every library builder (each PLMN differs from the one
	// announced before, and every message has been built before under another PLMN)
	for i := len(plmns) - 1; i >= 0; i-- {
		base := def
		base.plmn = plmns[i]
		tp.BuildNGSetupRequest(base.plmn)
		for _, w := range wrappers[1:] {
			run(w.name, w.class, w.msg, w.proc, w.uses, w.call, variant{"default", base, ""}, fmt.Sprintf("[NGSetup plmn=%x through the library builder only] ", base.plmn))
		}
	}
	for _, plmn := range plmns {
		base := def
		base.plmn = plmn
		if _, err := tglib.GetNGSetupRequest(base.gnbID, plmn, base.gnbBits, base.name); err != nil {
			r.Violate("wrapper/GetNGSetupRequest/refused", fmt.Sprintf("plmn=%x", plmn), err.Error(), nil)
			continue
		}
		for _, bd := range builders {
			bd := bd
			if bd.name == "BuildNGSetupRequest" {
				continue
			}
			call := func(a c13args) ([]byte, error) { return ngap.Encoder(bd.build(a)) }
			run(bd.name, bd.class, bd.msg, bd.proc, bd.uses, call, variant{"default", base, ""}, fmt.Sprintf("[NGSetup plmn=%x through the wrapper only] ", plmn))
		}
	}
	// a PDU value that was built is the caller's: a later NG Setup announcing another PLMN must not change what it encodes to
	for _, bd := range builders {
		tp.BuildNGSetupRequest(plmns[0])
		base := def
		base.plmn = plmns[0]
		var pdu ngapType.NGAPPDU
		if perr := recoverErr(func() { pdu = bd.build(base) }); perr != nil {
			continue
		}
		var enc1, enc2 []byte
		var err1, err2 error
		if perr := recoverErr(func() { enc1, err1 = ngap.Encoder(pdu) }); perr != nil {
			err1 = perr
		}
		tp.BuildNGSetupRequest(plmns[2])
		if perr := recoverErr(func() { enc2, err2 = ngap.Encoder(pdu) }); perr != nil {
			err2 = perr
		}
		cs := fmt.Sprintf("%s built after [NGSetup plmn=%x], encoded, [NGSetup plmn=%x], encoded again", bd.name, plmns[0], plmns[2])
		l.Case(cs, true, "")
		if (err1 == nil) != (err2 == nil) || !bytes.Equal(enc1, enc2) {
			r.Violate("builder/"+bd.name+"/built-value-changed-by-a-later-NG-Setup", cs, fmt.Sprintf("%x then %x (%v %v)", enc1, enc2, err1, err2), nil)
		}
	}
	tp.BuildNGSetupRequest(def.plmn)
	// NG Setup: gNB id lengths 22..32 (all) x names x PLMNs
	w0 := wrappers[0]
	for bits := uint64(22); bits <= 32; bits++ {
		for _, name := range []string{"open5gs", "g", strings.Repeat("n", 150)} {
			for _, plmn := range plmns {
				a := def
				a.gnbBits, a.name, a.plmn = bits, name, plmn
				a.gnbID = pattern(2, int((bits+7)/8))
				v := variant{fmt.Sprintf("gnbBits=%d name=%d chars plmn=%x", bits, len(name), plmn), a, ""}
				run(w0.name, w0.class, w0.msg, w0.proc, w0.uses, w0.call, v, "")
			}
		}
	}
	// pairs for the wrappers: amf x ran x (psi|nas) products
	for _, w := range wrappers[1:] {
		for _, amf := range amfs {
			for _, ran := range rans {
				for _, psi := range psis[:3] {
					a := def
					a.amf, a.ran, a.psi = amf, ran, psi
					tp.BuildNGSetupRequest(def.plmn)
					run(w.name, w.class, w.msg, w.proc, w.uses, w.call, variant{fmt.Sprintf("amf=%d ran=%d psi=%d", amf, ran, psi), a, ""}, "")
				}
			}
		}
	}
	// before any NG Setup the built-in default PLMN (208/93) is used: checked in a fresh state is not possible in-process; reported as assumption
	l.Merge()
	r.Sample("[NGSetup plmn=00f110] GetUplinkNASTransport amf=4294967296 -> decode with refper and library; ids, NAS-PDU, ULI PLMN, mandatory IEs/criticalities")
	r.Sample("BuildPDUSessionResourceSetupResponseForRegistrationTest psi=255 ip=1.2.3.4")
}
