package props

import (
	"bytes"
	"fmt"
	"time"

	"mc/explore"
	"mc/ngapgen"
	"mc/refper"
	"mc/report"
)

func init() {
	register("C03", "exploration", func(c *Ctx) { runNGAPSweep(c, "C03") })
	register("C04", "exploration", func(c *Ctx) { runNGAPSweep(c, "C04") })
}

type ngapUnit struct {
	kind string // pdu | transfer
	msg  ngapgen.Message
	typ  string
}

func (u ngapUnit) name() string {
	if u.kind == "pdu" {
		return u.msg.Class + "/" + u.msg.Name
	}
	return "transfer/" + u.typ
}

// runNGAPSweep enumerates NGAP values (all single deviations per message type in quick, pairs in
// thorough) and applies the oracle of C03 (bytes == reference encoding) or C04 (round trips).
var ngapHeld held // the previous case's encoding, re-examined after the next encode

func runNGAPSweep(ctx *Ctx, prop string) {
	r := ctx.R
	if ctx.Isolate() {
		return
	}
	s, err := loadSchema()
	if err != nil {
		r.HarnessError(err.Error())
		return
	}
	codec := &refper.Codec{S: s}
	var units []ngapUnit
	for _, m := range ngapgen.Messages(s) {
		if ngapgen.New(s, nil).Usable(m.Type) {
			units = append(units, ngapUnit{kind: "pdu", msg: m})
		}
	}
	for _, t := range ngapgen.Transfers(s) {
		if _, ok := transferTypes[t]; ok {
			units = append(units, ngapUnit{kind: "transfer", typ: t})
		}
	}
	bound := 1
	budget := 10 * time.Minute // (quick finishes in well under a minute on an idle machine; the budget only guards against a runaway, and a busy machine must not shrink what is covered)
	if ctx.Thorough {
		bound = 2
		budget = 14 * time.Minute
	}
	deadline := time.Now().Add(budget)
	r.Set("message_types", len(units))
	for _, d := range drift {
		if prop == "C03" {
			r.Violate("schema-drift/"+leafClass(d), d, "constraint of a known field differs from the frozen schema (reviewed transcription of the pinned ngapType tags)", nil)
		}
	}
	r.Set("schema_extended", added)
	locals := make([]*report.Local, Workers())
	for i := range locals {
		locals[i] = r.Local()
	}
	leavesTotal := 0
	completed, cut := 0, []string{}
	for ui, u := range units {
		u := u
		body := func(c *explore.Chooser, w int) {
			l := locals[w]
			g := ngapgen.New(s, c)
			var node *refper.Node
			typ, tag := "NGAPPDU", refper.PDUTag
			if u.kind == "pdu" {
				node = g.PDU(u.msg)
			} else {
				typ, tag = u.typ, "valueExt"
				node = g.Value(u.typ, refper.ParseTag("valueExt"), u.typ)
			}
			cs := u.name() + " " + c.Describe()
			if ngapgen.LargeDefault {
				cs = u.name() + " [all strings 200 units] " + c.Describe()
			}
			lc := "default"
			for i := len(c.Picks) - 1; i >= 0; i-- {
				if c.Picks[i] != 0 {
					lc = leafClass(c.Labels[i])
					break
				}
			}
			refB, refErr := codec.Encode(typ, tag, node)
			if refErr != nil {
				r.HarnessError(fmt.Sprintf("reference encoder refuses a generated value: %s: %v", cs, refErr))
				return
			}
			var libB []byte
			var libErr error
			var pan bool
			if u.kind == "pdu" {
				libB, libErr, pan = libEncodePDU(s, node)
			} else {
				libB, libErr, pan = libEncodeTransfer(s, u.typ, node)
			}
			l.Case(cs, c.Deviations() > 0, fmt.Sprintf("%d:%x", len(refB), refB[:min(6, len(refB))]))
			replay := map[string]interface{}{"unit": u.name(), "picks": c.Picks, "value": node.String()}
			if prop == "C03" {
				if !pan && libErr == nil {
					ngapHeld.next(r, "encode/result-changed-by-a-later-encode", libB, cs)
					if ngapSecondEncode != "" {
						r.Violate("encode/second-encode-of-the-same-value-differs/"+lc, cs, ngapSecondEncode, replay)
					}
				}
				switch {
				case pan:
					r.Violate("encode/panic/"+errClass(libErr), cs, libErr.Error(), replay)
				case libErr != nil:
					if !g.OutsideRoot {
						r.Violate("encode/refused-valid-value/"+errClass(libErr), cs, libErr.Error(), replay)
					}
				case !bytes.Equal(libB, refB):
					r.Violate("encode/bytes-differ/"+lc, cs, fmt.Sprintf("first difference at octet %d: library %s reference %s", firstDiff(libB, refB), shortHex(libB), shortHex(refB)), replay)
				}
				return
			}
			if g.OutsideRoot && (libErr != nil || pan) {
				return // an extension value the encoder refuses: outside C04's quantifier (C03 judges the refusal)
			}
			// C04 (a): decode(encode(v)) == v
			dec := func(b []byte) (*refper.Node, error, bool) {
				if u.kind == "pdu" {
					return libDecodePDU(s, b)
				}
				return libDecodeTransfer(s, u.typ, b)
			}
			enc := func(n *refper.Node) ([]byte, error, bool) {
				if u.kind == "pdu" {
					return libEncodePDU(s, n)
				}
				return libEncodeTransfer(s, u.typ, n)
			}
			if !pan && libErr == nil {
				back, derr, dp := dec(libB)
				switch {
				case dp:
					r.Violate("roundtrip/decode-panic/"+errClass(derr), cs, derr.Error(), replay)
				case derr != nil:
					r.Violate("roundtrip/decode-error/"+lc, cs, derr.Error()+" on "+shortHex(libB), replay)
				case !refper.Equal(back, node):
					r.Violate("roundtrip/value-differs/"+lc, cs, "decoded vs original: "+refper.FirstDiff(back, node, ""), replay)
				}
			} else if pan {
				r.Violate("roundtrip/encode-panic/"+errClass(libErr), cs, libErr.Error(), replay)
			} else if !g.OutsideRoot {
				r.Violate("roundtrip/encode-error/"+errClass(libErr), cs, libErr.Error(), replay)
			}
			// C04 (b): the reference encoding is accepted, decoded to the value, re-encoded to the same bytes
			refSnap := append([]byte{}, refB...)
			back, derr, dp := dec(refB)
			// (only for whole PDUs through ngap.Decoder: the emulator decodes into a receive buffer it overwrites with the
			// next message. aper.UnmarshalWithParams on a bare transfer container refers to its input by design on the
			// unchanged tree - fixed-size strings are sub-slices of it - and nothing in the property forbids that)
			if u.kind == "pdu" && !dp && derr == nil && ngapDecodeAliases != "" {
				r.Violate("canonical/decoded-value-aliases-the-input-buffer/"+lc, cs, ngapDecodeAliases, replay)
			}
			if !bytes.Equal(refSnap, refB) {
				r.Violate("canonical/decoder-modified-its-input/"+lc, cs, fmt.Sprintf("input %s, after decoding the same slice holds %s", shortHex(refSnap), shortHex(refB)), replay)
				copy(refB, refSnap)
			}
			switch {
			case dp:
				r.Violate("canonical/decode-panic/"+errClass(derr), cs, derr.Error(), replay)
			case derr != nil:
				r.Violate("canonical/rejected/"+lc, cs, derr.Error()+" on "+shortHex(refB), replay)
			case !refper.Equal(back, node):
				r.Violate("canonical/value-differs/"+lc, cs, "decoded vs original: "+refper.FirstDiff(back, node, ""), replay)
			default:
				if ngapDirectReencodeErr != nil {
					r.Violate("canonical/decoded-value-refused-by-the-encoder/"+lc, cs, ngapDirectReencodeErr.Error(), replay)
				} else if !bytes.Equal(ngapDirectReencode, refB) {
					r.Violate("canonical/decoded-value-reencodes-differently/"+lc, cs, fmt.Sprintf("first difference at octet %d: %s vs %s", firstDiff(ngapDirectReencode, refB), shortHex(ngapDirectReencode), shortHex(refB)), replay)
				}
				re, rerr, rp := enc(back)
				if rp || rerr != nil {
					r.Violate("canonical/reencode-failed/"+lc, cs, fmt.Sprint(rerr), replay)
				} else if !bytes.Equal(re, refB) {
					r.Violate("canonical/reencode-differs/"+lc, cs, fmt.Sprintf("first difference at octet %d: %s vs %s", firstDiff(re, refB), shortHex(re), shortHex(refB)), replay)
				}
			}
		}
		g0 := ngapgen.New(s, nil)
		if u.kind == "pdu" {
			g0.PDU(u.msg)
		} else {
			g0.Value(u.typ, refper.ParseTag("valueExt"), u.typ)
		}
		leavesTotal += g0.Leaves
		st := explore.Explore(explore.Config{Bound: bound, Workers: Workers(), Deadline: deadline}, body)
		r.Add("executions", st.Executions)
		// second base value: every variable-size string long (quick: its single deviations; thorough: the same bound)
		ngapgen.LargeDefault = true
		stL := explore.Explore(explore.Config{Bound: bound, Workers: Workers(), Deadline: deadline}, body)
		ngapgen.LargeDefault = false
		r.Add("executions", stL.Executions)
		if !stL.Complete {
			st.Complete = false
		}
		if st.Level1 != "" {
			r.Consistent("level-1 vectors of "+u.name(), st.Level1)
		}
		if st.Complete {
			completed++
		} else {
			cut = append(cut, fmt.Sprintf("%s (bound %d completed, %d executions beyond)", u.name(), st.BoundCompleted, st.BeyondBound))
		}
		if ui == 0 || u.name() == "InitiatingMessage/UplinkNASTransport" {
			r.Sample(fmt.Sprintf("%s: default value + every vector with <=%d deviations (%d executions)", u.name(), bound, st.Executions))
		}
	}
	for _, l := range locals {
		l.Merge()
	}
	r.Set("leaf_positions_total", leavesTotal)
	r.Set("deviation_bound", bound)
	r.Set("message_types_completed_in_the_lead_shard", completed)
	if len(cut) > 0 {
		r.NotExhaustive(fmt.Sprintf("budget ended; not completed at bound %d: %v", bound, cut))
	}
	ngapPrimitiveSweep(ctx, prop)
	r.Rule = fmt.Sprintf("for each of %d NGAP message / transfer-container types: the all-default value (every IE and optional component present) and every value with <=%d deviations from it, the same again around a second base value in which every variable-size string is 200 units long, a deviation being one leaf moved to another member of its boundary alphabet "+
		"(INTEGER: lb, lb+1, 2^k-1, 2^k, ub-1, ub, extension values; strings: sizes lb, lb+1, 2, 3, 16, 17, 127, 128, 255, 256, ub-1, ub, 16383, ub+1 if extensible x 3 contents; ENUMERATED all root values; CHOICE every alternative; OPTIONAL absent; SEQUENCE OF sizes; IE containers: each IE alone / empty; criticalities); "+
		"plus the primitive sweep on synthetic types (every range size 1..257 and the large ranges, every bit offset 0..7); oracle %s; non-trivial = at least one deviation; distinct = distinct (type, choice vector)", len(units), bound,
		map[string]string{"C03": "bytes == refper (independent X.691 ALIGNED PER encoder over the frozen schema), out-of-constraint values refused", "C04": "decode(encode(v)) == v; reference encoding accepted, decodes to v, re-encodes to the same bytes"}[prop])
	r.Assume("frozen schema mc/spec/ngap_schema.json = transcription of the pinned ngapType struct tags (themselves generated from the TS 38.413 ASN.1); a constraint wrong at the pinned commit in both would not be seen",
		"X.691: empty variable-size strings under a constrained (bit-field) length are not generated (alignment of an empty octet-aligned field not asserted)",
		"strings are limited to 16383 units in this sweep (no fragmented length); fragmentation has its own sub-sweep")
}
