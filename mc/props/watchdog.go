package props

import (
	"fmt"
	"os"
	"sync/atomic"
	"time"

	"mc/report"
)

// watchdog reports a call that does not return within the horizon as a violation and ends the shard process
// (a hung goroutine cannot be cancelled). Only used inside shard processes (ctx.Fork).
type watchdog struct {
	cur   atomic.Value
	start atomic.Int64
}

func startWatchdog(r *report.Report, horizon time.Duration, key string) *watchdog {
	w := &watchdog{}
	w.cur.Store("")
	go func() {
		for {
			time.Sleep(200 * time.Millisecond)
			t0 := w.start.Load()
			if t0 != 0 && time.Since(time.Unix(0, t0)) > horizon {
				in := w.cur.Load().(string)
				r.Violate(key, in, fmt.Sprintf("no return after %v", horizon), nil)
				r.NotExhaustive("a shard stopped at a non-terminating input; the rest of that shard was not run")
				r.WritePartial(os.Getenv("MC_PARTIAL"))
				os.Exit(0)
			}
		}
	}()
	return w
}

func (w *watchdog) enter(desc string) { w.cur.Store(desc); w.start.Store(time.Now().UnixNano()) }
func (w *watchdog) leave()            { w.start.Store(0) }
