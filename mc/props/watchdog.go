package props

import (
	"fmt"
	"os"
	"sync/atomic"
	"syscall"
	"time"

	"mc/report"
)

// watchdog reports a call that does not return within the horizon as a violation and ends the shard process
// (a hung goroutine cannot be cancelled). Only used inside shard processes (ctx.Fork).
//
// The horizon is measured in CPU time consumed by this (single-threaded) shard process since the call was entered,
// so a shard that is merely starved of CPU on a busy machine is never mistaken for a hang; a call that blocks without
// consuming CPU is caught by a wall-clock horizon twenty times as long.
type watchdog struct {
	cur      atomic.Value
	start    atomic.Int64
	cpuStart atomic.Int64
}

// processCPU: user+system CPU time of this process in nanoseconds.
func processCPU() int64 {
	var ru syscall.Rusage
	if syscall.Getrusage(syscall.RUSAGE_SELF, &ru) != nil {
		return 0
	}
	return ru.Utime.Nano() + ru.Stime.Nano()
}

// hungSince says whether a call entered at wall time t0 (ns) with process CPU time c0 (ns) has exceeded the horizon.
func hungSince(t0, c0 int64, horizon time.Duration) bool {
	if t0 == 0 {
		return false
	}
	return time.Duration(processCPU()-c0) > horizon || time.Since(time.Unix(0, t0)) > 20*horizon
}

func startWatchdog(r *report.Report, horizon time.Duration, key string) *watchdog {
	w := &watchdog{}
	w.cur.Store("")
	go func() {
		for {
			time.Sleep(200 * time.Millisecond)
			t0 := w.start.Load()
			if hungSince(t0, w.cpuStart.Load(), horizon) && w.start.Load() == t0 {
				in := w.cur.Load().(string)
				r.Violate(key, in, fmt.Sprintf("no return after %v of CPU time (or %v of wall time)", horizon, 20*horizon), nil)
				r.NotExhaustive("a shard stopped at a non-terminating input; the rest of that shard was not run")
				r.WritePartial(os.Getenv("MC_PARTIAL"))
				os.Exit(0)
			}
		}
	}()
	return w
}

func (w *watchdog) enter(desc string) {
	w.cur.Store(desc)
	w.cpuStart.Store(processCPU())
	w.start.Store(time.Now().UnixNano())
}
func (w *watchdog) leave() { w.start.Store(0) }
