// Package ngapgen enumerates abstract NGAP values (refper.Node) from the frozen schema: every leaf and
// every structural option is a choice point of the explorer (index 0 = the simplest legal value).
package ngapgen

import (
	"fmt"
	"sort"
	"strings"

	"mc/explore"
	"mc/refper"
)

type Gen struct {
	S *refper.Schema
	C *explore.Chooser
	// Leaves counts the leaf positions of the generated value (for reporting).
	Leaves int
	// OutsideRoot is set when a picked value lies outside the root of an extensible constraint: such a value
	// is not a value of this version of the type; an encoder may refuse it, but must encode it correctly if it does not.
	OutsideRoot bool
	usable      map[string]bool
	force       map[string]int // pick labels answered without the explorer (set by the mixed-pair deviation of a list)
}

// MixedPairs adds, to every SEQUENCE OF whose element holds a CHOICE (directly or through mandatory components, up to
// three levels down), one more choice point: the two-element list whose elements take each ordered pair of alternatives
// of that CHOICE. As a single deviation it puts different alternatives next to each other in one list (a field that ends
// in the middle of an octet followed by a field that starts with a 1 bit, a short item in front of a long one).
var MixedPairs = true

// firstChoice finds the first CHOICE reachable from typ through mandatory components; sub is the path suffix under
// which Value will ask for its alternative.
func (g *Gen) firstChoice(typ string, depth int) (sub string, alts int, ok bool) {
	td := g.S.Types[typ]
	if td == nil || depth > 3 {
		return "", 0, false
	}
	if td.Kind == "choice" {
		n := 0
		for _, f := range td.Fields {
			if g.Usable(f.Type) && !strings.HasPrefix(f.Type, "ProtocolIESingleContainer") {
				n++
			}
		}
		return "", n, n >= 2
	}
	for _, f := range td.Fields {
		if refper.ParseTag(f.Tag).Optional || strings.HasPrefix(f.Type, "#") || strings.HasPrefix(f.Type, "[]") || strings.HasPrefix(f.Type, "?") {
			continue
		}
		if s2, n, ok := g.firstChoice(f.Type, depth+1); ok {
			return "." + f.Name + s2, n, true
		}
	}
	return "", 0, false
}

func New(s *refper.Schema, c *explore.Chooser) *Gen {
	return &Gen{S: s, C: c, usable: map[string]bool{}}
}

func (g *Gen) pick(label string, n int) int {
	if v, ok := g.force[label]; ok && v < n {
		return v
	}
	if g.C == nil {
		return 0
	}
	return g.C.Pick(label, n)
}

// Usable reports whether a value of the type can be generated (types built on alternatives-free
// open types, empty extension containers and OBJECT IDENTIFIER cannot).
func (g *Gen) Usable(typ string) bool {
	if strings.HasPrefix(typ, "#") {
		return true
	}
	if strings.HasPrefix(typ, "?") {
		return false
	}
	if strings.HasPrefix(typ, "[]") {
		return g.Usable(typ[2:])
	}
	if u, ok := g.usable[typ]; ok {
		return u
	}
	g.usable[typ] = false // cycle guard
	td, ok := g.S.Types[typ]
	u := false
	if ok {
		if td.Kind == "choice" {
			for _, f := range td.Fields {
				if g.Usable(f.Type) {
					u = true
				}
			}
		} else {
			u = len(td.Fields) > 0
			for _, f := range td.Fields {
				if !refper.ParseTag(f.Tag).Optional && !g.Usable(f.Type) {
					u = false
				}
			}
		}
	}
	g.usable[typ] = u
	return u
}

func uniq(def int64, vs []int64, lo, hi int64) []int64 {
	seen := map[int64]bool{def: true}
	out := []int64{def}
	sort.Slice(vs, func(i, j int) bool { return vs[i] < vs[j] })
	for _, v := range vs {
		if v < lo || v > hi || seen[v] {
			continue
		}
		seen[v] = true
		out = append(out, v)
	}
	return out
}

// IntAlphabet: boundary values of an INTEGER constraint (in range; plus extension values if extensible).
func IntAlphabet(p refper.Params) []int64 {
	if p.ValueLB == nil {
		return []int64{0, 1, -1, 127, 128, -128, -129, 32767, 32768, -32768, -32769, 1 << 31, -(1 << 31) - 1}
	}
	lb := *p.ValueLB
	if p.ValueUB == nil {
		return uniq(lb, []int64{lb + 1, lb + 127, lb + 128, lb + 255, lb + 256, lb + 65535, lb + 65536, lb + 1<<24, lb + 1<<32}, lb, 1<<62)
	}
	ub := *p.ValueUB
	vs := []int64{lb + 1, ub - 1, ub}
	for k := uint(1); k < 62; k++ {
		vs = append(vs, lb+(1<<k)-1, lb+(1<<k))
	}
	out := uniq(lb, vs, lb, ub)
	if p.ValueExt {
		ext := []int64{ub + 1, 2 * ub, -1, -129}
		for k := uint(7); k < 56; k += 8 { // first value needing each octet count in 2's complement
			ext = append(ext, 1<<k-1, 1<<k)
		}
		seen := map[int64]bool{}
		for _, v := range out {
			seen[v] = true
		}
		sort.Slice(ext, func(i, j int) bool { return ext[i] < ext[j] })
		for _, v := range ext {
			if (v < lb || v > ub) && !seen[v] {
				seen[v] = true
				out = append(out, v)
			}
		}
	}
	return out
}

// LargeDefault makes the default size of every variable-size string 200 units (where its constraint allows) instead
// of the smallest one: a second base value around which the deviations are explored (several long fields in one
// message - two-octet length determinants, buffers that grow - meet only there). Set by the caller, not by picks.
var LargeDefault bool

// SizeAlphabet: boundary sizes of a size constraint; maxUnbounded caps sizes of unbounded types.
func SizeAlphabet(p refper.Params, isList bool) []int64 {
	lb, ub := int64(0), int64(-1)
	if p.SizeLB != nil {
		lb = *p.SizeLB
	}
	if p.SizeUB != nil {
		ub = *p.SizeUB
	}
	hi := ub
	if hi < 0 {
		hi = 16383
	}
	def := lb
	if def == 0 && hi >= 1 {
		def = 1
	}
	var vs []int64
	if isList {
		vs = []int64{lb, lb + 1, 2, 3}
		if ub >= 0 && ub <= 64 {
			vs = append(vs, ub)
		}
		// long lists: counts around 128 and 256 (a count above 127 needs the two-octet form when the upper bound is 64K
		// or more; above 255 it no longer fits an octet)
		vs = append(vs, 127, 128, 129, 255, 256, 300)
		if hi > 300 {
			hi = 300
		}
	} else {
		vs = []int64{lb, lb + 1, 2, 3, 16, 17, 127, 128, 255, 256, ub - 1, ub, 16383}
		if hi > 16383 {
			hi = 16383
		}
	}
	if LargeDefault && !isList && lb != ub {
		if hi >= 200 && lb <= 200 {
			def = 200
		} else if ub >= 0 {
			def = (lb + ub + 2) / 2 // small ranges: a size from the middle (gNB id 22..32 -> 28 bits)
		}
	}
	out := uniq(def, vs, lb, hi)
	if p.SizeExt && ub >= 0 && !isList {
		out = append(out, ub+1)
		if ub+1 < 200 {
			out = append(out, 200)
		}
	}
	return out
}

func content(kind, n int, printable bool) []byte {
	b := make([]byte, n)
	for i := range b {
		switch kind {
		case 0:
			b[i] = byte(i + 1)
		case 1:
			b[i] = 0
		case 2:
			b[i] = 0xff
		}
		if printable {
			// every character of the PrintableString alphabet (X.680 41.4) occurs
			const ps = "ABCDEFGHIJKLMNOPQRSTUVWXYZabcdefghijklmnopqrstuvwxyz0123456789 '()+,-./:=?"
			b[i] = ps[(i*7+kind*13)%len(ps)]
		}
	}
	return b
}

func isIEItem(td *refper.TypeDef) (idType, holderField string, ok bool) {
	if td == nil || td.Kind != "seq" || len(td.Fields) != 3 {
		return "", "", false
	}
	fp := refper.ParseTag(td.Fields[2].Tag)
	if !fp.OpenType || td.Fields[0].Name != fp.RefFieldName {
		return "", "", false
	}
	return td.Fields[0].Type, td.Fields[2].Name, true
}

// Value generates a value of type typ under tag parameters p.
func (g *Gen) Value(typ string, p refper.Params, path string) *refper.Node {
	switch {
	case typ == "#int":
		g.Leaves++
		a := IntAlphabet(p)
		v := a[g.pick(path, len(a))]
		if p.ValueExt && p.ValueLB != nil && p.ValueUB != nil && (v < *p.ValueLB || v > *p.ValueUB) {
			g.OutsideRoot = true
		}
		return refper.Int(v)
	case typ == "#bool":
		g.Leaves++
		return &refper.Node{Kind: "bool", I: int64(g.pick(path, 2))}
	case typ == "#enum":
		g.Leaves++
		lb, ub := int64(0), int64(0)
		if p.ValueLB != nil {
			lb = *p.ValueLB
		}
		if p.ValueUB != nil {
			ub = *p.ValueUB
		}
		return refper.Enum(lb + int64(g.pick(path, int(ub-lb+1))))
	case typ == "#bits":
		g.Leaves++
		a := SizeAlphabet(p, false)
		n := a[g.pick(path+"#size", len(a))]
		if p.SizeExt && p.SizeUB != nil && n > *p.SizeUB {
			g.OutsideRoot = true
		}
		c := content(g.pick(path+"#content", 3), int((n+7)/8), false)
		if n%8 != 0 && len(c) > 0 {
			c[len(c)-1] &= 0xff << uint(8-n%8)
		}
		return refper.Bits(c, uint64(n))
	case typ == "#octets" || typ == "#string":
		g.Leaves++
		a := SizeAlphabet(p, false)
		n := a[g.pick(path+"#size", len(a))]
		if p.SizeExt && p.SizeUB != nil && n > *p.SizeUB {
			g.OutsideRoot = true
		}
		c := content(g.pick(path+"#content", 3), int(n), typ == "#string")
		if typ == "#string" {
			return refper.Str(string(c))
		}
		return refper.Octets(c)
	case strings.HasPrefix(typ, "[]"):
		et := typ[2:]
		if _, _, ok := isIEItem(g.S.Types[et]); ok {
			return g.ieList(et, p, path)
		}
		a := SizeAlphabet(p, true)
		ci := g.pick(path+"#count", len(a))
		n := a[ci]
		out := &refper.Node{Kind: "list"}
		ep := p
		ep.SizeExt, ep.SizeLB, ep.SizeUB = false, nil, nil
		if MixedPairs && ci == 0 && (p.SizeUB == nil || *p.SizeUB >= 2) && (p.SizeLB == nil || *p.SizeLB <= 2) {
			if sub, alts, ok := g.firstChoice(et, 0); ok {
				if m := g.pick(path+"#mixed-pair", alts*alts); m > 0 {
					if g.force == nil {
						g.force = map[string]int{}
					}
					g.force[fmt.Sprintf("%s[0]%s#alt", path, sub)] = m / alts
					g.force[fmt.Sprintf("%s[1]%s#alt", path, sub)] = m % alts
					n = 2
				}
			}
		}
		for i := int64(0); i < n; i++ {
			out.Kids = append(out.Kids, g.Value(et, ep, fmt.Sprintf("%s[%d]", path, i)))
		}
		return out
	}
	td := g.S.Types[typ]
	if td == nil {
		panic("ngapgen: unknown type " + typ)
	}
	if td.Kind == "choice" {
		var alts []refper.FieldDef
		for _, f := range td.Fields {
			if g.Usable(f.Type) && !strings.HasPrefix(f.Type, "ProtocolIESingleContainer") {
				alts = append(alts, f)
			}
		}
		if len(alts) == 0 {
			panic("ngapgen: CHOICE without usable alternative: " + typ)
		}
		f := alts[g.pick(path+"#alt", len(alts))]
		return refper.Choice(f.Name, g.Value(f.Type, refper.ParseTag(f.Tag), path+"."+f.Name))
	}
	out := &refper.Node{Kind: "seq"}
	for _, f := range td.Fields {
		fp := refper.ParseTag(f.Tag)
		if fp.Optional {
			if !g.Usable(f.Type) {
				continue
			}
			if g.pick(path+"."+f.Name+"#absent", 2) == 1 {
				continue
			}
		}
		out.Names = append(out.Names, f.Name)
		out.Kids = append(out.Kids, g.Value(f.Type, fp, path+"."+f.Name))
	}
	return out
}

// ieList generates a protocol IE container: default = every IE of the container's object set once, in
// declaration order; alternatives = each IE alone, and the empty container.
func (g *Gen) ieList(itemType string, p refper.Params, path string) *refper.Node {
	td := g.S.Types[itemType]
	idType, holderField, _ := isIEItem(td)
	holder := g.S.Types[td.Fields[2].Type]
	var alts []refper.FieldDef
	for _, f := range holder.Fields {
		if g.Usable(f.Type) {
			alts = append(alts, f)
		}
	}
	lb := int64(0)
	if p.SizeLB != nil {
		lb = *p.SizeLB
	}
	n := len(alts) + 1
	if lb == 0 {
		n++
	}
	sel := g.pick(path+"#ies", n)
	out := &refper.Node{Kind: "list"}
	for i, f := range alts {
		if sel != 0 && sel != i+1 {
			continue
		}
		fp := refper.ParseTag(f.Tag)
		id := int64(-1)
		if fp.RefFieldValue != nil {
			id = *fp.RefFieldValue
		}
		ipath := fmt.Sprintf("%s.%s", path, f.Name)
		crit := refper.Seq("Value", refper.Enum(int64(g.pick(ipath+"#crit", 3))))
		g.Leaves++
		item := refper.Seq(td.Fields[0].Name, g.idNode(idType, id), td.Fields[1].Name, crit, holderField, refper.Choice(f.Name, g.Value(f.Type, fp, ipath)))
		out.Kids = append(out.Kids, item)
	}
	return out
}

func (g *Gen) idNode(idType string, id int64) *refper.Node {
	td := g.S.Types[idType]
	if td != nil && td.Kind == "choice" {
		return refper.Choice(td.Fields[0].Name, refper.Int(id))
	}
	return refper.Seq("Value", refper.Int(id))
}

// Message describes one NGAP message type: outcome class, procedure and the Go/schema names.
type Message struct {
	Class     string // InitiatingMessage | SuccessfulOutcome | UnsuccessfulOutcome
	Name      string // alternative of the Value holder, e.g. NGSetupRequest
	Type      string
	Tag       string
	Procedure int64
}

func Messages(s *refper.Schema) []Message {
	var out []Message
	for _, class := range []string{"InitiatingMessage", "SuccessfulOutcome", "UnsuccessfulOutcome"} {
		td := s.Types[class]
		holder := s.Types[td.Fields[2].Type]
		for _, f := range holder.Fields {
			fp := refper.ParseTag(f.Tag)
			pc := int64(-1)
			if fp.RefFieldValue != nil {
				pc = *fp.RefFieldValue
			}
			out = append(out, Message{class, f.Name, f.Type, f.Tag, pc})
		}
	}
	return out
}

// PDU generates a complete NGAP-PDU value carrying message m.
func (g *Gen) PDU(m Message) *refper.Node {
	g.Leaves++
	crit := refper.Seq("Value", refper.Enum(int64(g.pick(m.Name+"#crit", 3))))
	body := g.Value(m.Type, refper.ParseTag(m.Tag), m.Name)
	msg := refper.Seq("ProcedureCode", refper.Seq("Value", refper.Int(m.Procedure)), "Criticality", crit, "Value", refper.Choice(m.Name, body))
	return refper.Choice(m.Class, msg)
}

// Transfers lists the container types that are encoded on their own (with tag "valueExt") and carried
// inside OCTET STRINGs.
func Transfers(s *refper.Schema) []string {
	var out []string
	for name, td := range s.Types {
		if td.Kind != "seq" || len(td.Fields) == 0 {
			continue
		}
		if strings.HasSuffix(name, "Transfer") || strings.HasSuffix(name, "TransparentContainer") {
			if _, _, ie := isIEItem(td); !ie {
				out = append(out, name)
			}
		}
	}
	sort.Strings(out)
	return out
}
