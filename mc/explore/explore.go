// Package explore is the deviation-bounded exhaustive enumerator of choice sequences
// (iterative context bounding applied to environment answers, DESIGN.md 4.1).
//
// A body obtains every free choice through Chooser.Pick(label, n); index 0 is the default answer.
// Explore runs the body for the all-default vector and then, level by level, for every vector that
// departs from the default in at most Bound positions.  Level d (exactly d deviations) is finished
// before level d+1 starts, so "bound completed" is well defined when a budget ends the run.
package explore

import (
	"fmt"
	"hash/fnv"
	"sync"
	"sync/atomic"
	"time"
)

type Chooser struct {
	prefix []int
	Picks  []int
	Arity  []int
	Labels []string
}

// Pick returns an index in [0,n). n<=1 returns 0 without recording a choice point.
func (c *Chooser) Pick(label string, n int) int {
	if n <= 1 {
		return 0
	}
	i := len(c.Picks)
	v := 0
	if i < len(c.prefix) {
		v = c.prefix[i]
		if v >= n {
			panic(fmt.Sprintf("explore: replay diverged at pick %d (%s): prefix wants %d, arity %d", i, label, v, n))
		}
	}
	c.Picks = append(c.Picks, v)
	c.Arity = append(c.Arity, n)
	c.Labels = append(c.Labels, label)
	return v
}

// Prefix returns the choices this execution is to replay before it takes defaults (for bodies that run the execution
// in another process).
func (c *Chooser) Prefix() []int { return append([]int{}, c.prefix...) }

// Bool is Pick over {false,true}.
func (c *Chooser) Bool(label string) bool { return c.Pick(label, 2) == 1 }

// Deviations returns the number of non-default picks so far.
func (c *Chooser) Deviations() int {
	d := 0
	for _, p := range c.Picks {
		if p != 0 {
			d++
		}
	}
	return d
}

// Describe renders the non-default picks, e.g. "ksi=3,rand=1".
func (c *Chooser) Describe() string {
	s := ""
	for i, p := range c.Picks {
		if p != 0 {
			if s != "" {
				s += ","
			}
			s += fmt.Sprintf("%s=%d", c.Labels[i], p)
		}
	}
	if s == "" {
		return "default"
	}
	return s
}

func Replay(prefix []int) *Chooser { return &Chooser{prefix: append([]int{}, prefix...)} }

type Config struct {
	Bound    int // maximum number of deviations; <0 = unbounded (full product)
	Workers  int
	Deadline time.Time // zero = none
	// MaxLevelWidth caps the number of prefixes kept for one level (memory guard); 0 = 4M.
	MaxLevelWidth int
	// Shard/Shards: explore only the subtrees of the level-1 vectors whose index is congruent to Shard modulo Shards
	// (the all-default vector itself is executed by every shard: its picks define level 1). 0 Shards = DefaultShards.
	Shard, Shards int
}

// DefaultShard/DefaultShards apply when a Config names no shard: set by a check that runs in single-threaded shard
// processes (then every exploration also runs with one worker goroutine).
var DefaultShard, DefaultShards int

type Stats struct {
	Executions     int64
	BoundCompleted int   // largest d such that every vector with <= d deviations was executed
	Complete       bool  // all levels up to Bound (or the full product) were executed
	BeyondBound    int64 // executions done in the level that was cut short
	PerLevel       []int64
	Level1         string // number and hash of the level-1 vectors before sharding (must be the same in every shard process)
}

// Explore runs body for every choice vector within the bound.  body is called concurrently from
// Workers goroutines with the worker index.
func Explore(cfg Config, body func(c *Chooser, worker int)) Stats {
	if cfg.Workers <= 0 {
		cfg.Workers = 1
	}
	if cfg.MaxLevelWidth == 0 {
		cfg.MaxLevelWidth = 4 << 20
	}
	if cfg.Shards == 0 && DefaultShards > 0 {
		cfg.Shard, cfg.Shards, cfg.Workers = DefaultShard, DefaultShards, 1
	}
	var st Stats
	st.BoundCompleted = -1
	level := [][]int{{}}
	for d := 0; len(level) > 0; d++ {
		var next [][]int
		var mu sync.Mutex
		var idx atomic.Int64
		var done atomic.Int64
		var cut atomic.Bool
		overflow := false
		var wg sync.WaitGroup
		for w := 0; w < cfg.Workers; w++ {
			wg.Add(1)
			go func(w int) {
				defer wg.Done()
				var local [][]int
				for {
					if !cfg.Deadline.IsZero() && time.Now().After(cfg.Deadline) {
						cut.Store(true)
						break
					}
					i := int(idx.Add(1) - 1)
					if i >= len(level) {
						break
					}
					prefix := level[i]
					c := &Chooser{prefix: prefix}
					body(c, w)
					done.Add(1)
					if cfg.Bound >= 0 && d >= cfg.Bound {
						continue
					}
					for p := len(prefix); p < len(c.Picks); p++ {
						for alt := 1; alt < c.Arity[p]; alt++ {
							child := make([]int, p+1)
							copy(child, c.Picks[:p])
							child[p] = alt
							local = append(local, child)
						}
					}
					if len(local) > 4096 {
						mu.Lock()
						if len(next) < cfg.MaxLevelWidth {
							next = append(next, local...)
						} else {
							overflow = true
						}
						mu.Unlock()
						local = local[:0]
					}
				}
				mu.Lock()
				if len(next) < cfg.MaxLevelWidth {
					next = append(next, local...)
				} else if len(local) > 0 {
					overflow = true
				}
				mu.Unlock()
			}(w)
		}
		wg.Wait()
		st.Executions += done.Load()
		st.PerLevel = append(st.PerLevel, done.Load())
		if cut.Load() {
			st.BeyondBound = done.Load()
			return st
		}
		st.BoundCompleted = d
		if overflow {
			return st
		}
		if d == 0 && cfg.Shards > 0 {
			// subtree sharding: this shard keeps every Shards-th level-1 vector (one worker: the order is deterministic)
			h := fnv.New64a()
			for _, v := range next {
				fmt.Fprint(h, v)
			}
			st.Level1 = fmt.Sprintf("%d vectors, hash %x", len(next), h.Sum64())
			var mine [][]int
			for i, v := range next {
				if i%cfg.Shards == cfg.Shard {
					mine = append(mine, v)
				}
			}
			next = mine
		}
		level = next
	}
	st.Complete = true
	return st
}
