package refper

import (
	"fmt"
	"strings"
)

type Codec struct{ S *Schema }

func bitsFor(r int64) int { // smallest k with 2^k >= r
	k := 0
	for (int64(1) << uint(k)) < r {
		k++
	}
	return k
}

func octetsFor(v uint64) int { // minimal octets of a non-negative-binary-integer (at least 1)
	n := 1
	for v > 0xff {
		v >>= 8
		n++
	}
	return n
}

// ---- encoding primitives ----

func encConstrained(w *bitWriter, v uint64, r int64) error {
	switch {
	case r <= 0:
		return fmt.Errorf("refper: bad range %d", r)
	case r == 1:
	case r <= 255:
		w.bits(v, bitsFor(r))
	case r == 256:
		w.align()
		w.bits(v, 8)
	case r <= 65536:
		w.align()
		w.bits(v, 16)
	default:
		return fmt.Errorf("refper: constrained whole number range %d needs the indefinite-length form", r)
	}
	return nil
}

// encGeneralLength writes an unconstrained length determinant (X.691 10.9.3.5-10.9.3.8) and calls emit
// for each fragment's content (off and n in units).
func encGeneralLength(w *bitWriter, total uint64, emit func(off, n uint64)) {
	off := uint64(0)
	for total-off >= 16384 {
		m := (total - off) / 16384
		if m > 4 {
			m = 4
		}
		w.align()
		w.bits(0xc0|m, 8)
		emit(off, m*16384)
		off += m * 16384
	}
	rest := total - off
	w.align()
	if rest <= 127 {
		w.bits(rest, 8)
	} else {
		w.bits(0x8000|rest, 16)
	}
	emit(off, rest)
}

func encInt(w *bitWriter, v int64, p Params) error {
	if p.ValueLB != nil && p.ValueUB != nil {
		lb, ub := *p.ValueLB, *p.ValueUB
		in := v >= lb && v <= ub
		if p.ValueExt {
			if in {
				w.bit(0)
			} else {
				w.bit(1)
				return encUnconstrainedInt(w, v)
			}
		} else if !in {
			return fmt.Errorf("refper: INTEGER %d outside (%d..%d)", v, lb, ub)
		}
		r := ub - lb + 1
		if r <= 65536 {
			return encConstrained(w, uint64(v-lb), r)
		}
		off := uint64(v - lb)
		n := octetsFor(off)
		max := octetsFor(uint64(ub - lb))
		w.bits(uint64(n-1), bitsFor(int64(max)))
		w.align()
		w.bits(off, 8*n)
		return nil
	}
	if p.ValueLB != nil { // semi-constrained
		if v < *p.ValueLB {
			return fmt.Errorf("refper: INTEGER %d below %d", v, *p.ValueLB)
		}
		off := uint64(v - *p.ValueLB)
		n := octetsFor(off)
		w.align()
		w.bits(uint64(n), 8)
		w.bits(off, 8*n)
		return nil
	}
	return encUnconstrainedInt(w, v)
}

func encUnconstrainedInt(w *bitWriter, v int64) error {
	n := 1
	for n < 8 {
		min, max := -(int64(1) << uint(8*n-1)), int64(1)<<uint(8*n-1)-1
		if v >= min && v <= max {
			break
		}
		n++
	}
	w.align()
	w.bits(uint64(n), 8)
	w.bits(uint64(v), 8*n)
	return nil
}

// sizeBounds resolves a size constraint for a value of size n: returns (extBitWritten ok), lb, ub (ub<0: none).
func sizeBounds(w *bitWriter, n uint64, p Params, what string) (lb, ub int64, err error) {
	lb, ub = 0, -1
	if p.SizeLB != nil {
		lb = *p.SizeLB
	}
	if p.SizeUB != nil {
		ub = *p.SizeUB
	}
	in := int64(n) >= lb && (ub < 0 || int64(n) <= ub)
	if p.SizeExt {
		if in {
			w.bit(0)
		} else {
			w.bit(1)
			return 0, -1, nil
		}
	} else if !in {
		return 0, 0, fmt.Errorf("refper: %s size %d outside (%d..%d)", what, n, lb, ub)
	}
	return lb, ub, nil
}

func maskLast(b []byte, nbits uint64) []byte {
	out := append([]byte{}, b[:(nbits+7)/8]...)
	if nbits%8 != 0 {
		out[len(out)-1] &= 0xff << (8 - nbits%8)
	}
	return out
}

func encBitString(w *bitWriter, b []byte, nbits uint64, p Params) error {
	if uint64(len(b))*8 < nbits {
		return fmt.Errorf("refper: BIT STRING has %d octets for %d bits", len(b), nbits)
	}
	b = maskLast(b, nbits)
	lb, ub, err := sizeBounds(w, nbits, p, "BIT STRING")
	if err != nil {
		return err
	}
	if ub >= 0 && ub < 65536 {
		if lb == ub {
			if nbits > 16 {
				w.align()
			}
			w.rawBits(b, nbits)
			return nil
		}
		if err := encConstrained(w, nbits-uint64(lb), ub-lb+1); err != nil {
			return err
		}
		if nbits > 0 {
			w.align()
			w.rawBits(b, nbits)
		}
		return nil
	}
	encGeneralLength(w, nbits, func(off, n uint64) {
		if n > 0 {
			w.align()
			for i := off; i < off+n; i++ {
				w.bit(uint64(b[i/8]>>(7-i%8)) & 1)
			}
		}
	})
	return nil
}

func encOctetString(w *bitWriter, b []byte, p Params, what string) error {
	n := uint64(len(b))
	lb, ub, err := sizeBounds(w, n, p, what)
	if err != nil {
		return err
	}
	if ub >= 0 && ub < 65536 {
		if lb == ub {
			if n > 2 {
				w.align()
			}
			w.rawBits(b, 8*n)
			return nil
		}
		if err := encConstrained(w, n-uint64(lb), ub-lb+1); err != nil {
			return err
		}
		if n > 0 {
			w.octets(b)
		}
		return nil
	}
	encGeneralLength(w, n, func(off, k uint64) {
		if k > 0 {
			w.octets(b[off : off+k])
		}
	})
	return nil
}

// refValue follows the reference field of an open type down to its INTEGER (ProcedureCode.Value, ProtocolIEID.Value, PrivateIEID.local).
func refValue(n *Node) (int64, error) {
	for n != nil {
		switch n.Kind {
		case "int":
			return n.I, nil
		case "seq", "choice":
			if len(n.Kids) == 0 {
				return 0, fmt.Errorf("refper: empty reference field")
			}
			n = n.Kids[0]
		default:
			return 0, fmt.Errorf("refper: reference field is not an INTEGER")
		}
	}
	return 0, fmt.Errorf("refper: missing reference field")
}

func clearSize(p Params) Params {
	p.SizeExt, p.SizeLB, p.SizeUB = false, nil, nil
	return p
}

func (c *Codec) enc(w *bitWriter, typ string, p Params, n *Node) error {
	if n == nil {
		return fmt.Errorf("refper: missing value of type %s", typ)
	}
	switch {
	case typ == "#int":
		return encInt(w, n.I, p)
	case typ == "#bool":
		w.bit(uint64(n.I))
		return nil
	case typ == "#enum":
		if p.ValueLB == nil || p.ValueUB == nil {
			return fmt.Errorf("refper: ENUMERATED without bounds")
		}
		if n.I < *p.ValueLB || n.I > *p.ValueUB {
			return fmt.Errorf("refper: ENUMERATED %d outside root (%d..%d)", n.I, *p.ValueLB, *p.ValueUB)
		}
		if p.ValueExt {
			w.bit(0)
		}
		return encConstrained(w, uint64(n.I), *p.ValueUB-*p.ValueLB+1)
	case typ == "#bits":
		return encBitString(w, n.B, n.NBits, p)
	case typ == "#octets":
		return encOctetString(w, n.B, p, "OCTET STRING")
	case typ == "#string":
		return encOctetString(w, n.B, p, "PrintableString")
	case strings.HasPrefix(typ, "[]"):
		cnt := uint64(len(n.Kids))
		lb, ub, err := sizeBounds(w, cnt, p, "SEQUENCE OF")
		if err != nil {
			return err
		}
		ep := clearSize(p)
		emit := func(off, k uint64) error {
			for _, it := range n.Kids[off : off+k] {
				if err := c.enc(w, typ[2:], ep, it); err != nil {
					return err
				}
			}
			return nil
		}
		if ub >= 0 && ub < 65536 {
			if err := encConstrained(w, cnt-uint64(lb), ub-lb+1); err != nil {
				return err
			}
			return emit(0, cnt)
		}
		var ferr error
		encGeneralLength(w, cnt, func(off, k uint64) {
			if e := emit(off, k); e != nil && ferr == nil {
				ferr = e
			}
		})
		return ferr
	}
	td, ok := c.S.Types[typ]
	if !ok {
		return fmt.Errorf("refper: unknown type %s", typ)
	}
	if td.Kind == "choice" {
		if n.Kind != "choice" || len(n.Names) != 1 {
			return fmt.Errorf("refper: CHOICE %s is unset", typ)
		}
		idx := -1
		for i, f := range td.Fields {
			if f.Name == n.Names[0] {
				idx = i
			}
		}
		if idx < 0 {
			return fmt.Errorf("refper: CHOICE %s has no alternative %s", typ, n.Names[0])
		}
		alt := td.Fields[idx]
		ap := ParseTag(alt.Tag)
		if p.OpenType {
			if p.RefFieldValue == nil || ap.RefFieldValue == nil || *ap.RefFieldValue != *p.RefFieldValue {
				return fmt.Errorf("refper: open type %s alternative %s does not match its identifier", typ, alt.Name)
			}
			sub := &bitWriter{}
			if err := c.enc(sub, alt.Type, ap, n.Kids[0]); err != nil {
				return err
			}
			if len(sub.b) == 0 {
				sub.b = []byte{0}
			}
			encGeneralLength(w, uint64(len(sub.b)), func(off, k uint64) {
				if k > 0 {
					w.octets(sub.b[off : off+k])
				}
			})
			return nil
		}
		if p.ValueUB == nil {
			return fmt.Errorf("refper: CHOICE %s referenced without valueUB", typ)
		}
		if p.ValueExt {
			w.bit(0)
		}
		if int64(idx) > *p.ValueUB {
			return fmt.Errorf("refper: CHOICE %s index %d above valueUB %d", typ, idx, *p.ValueUB)
		}
		if err := encConstrained(w, uint64(idx), *p.ValueUB+1); err != nil {
			return err
		}
		return c.enc(w, alt.Type, ap, n.Kids[0])
	}
	// SEQUENCE
	if n.Kind != "seq" {
		return fmt.Errorf("refper: SEQUENCE %s got %s", typ, n.Kind)
	}
	if p.ValueExt {
		w.bit(0)
	}
	for _, f := range td.Fields {
		if ParseTag(f.Tag).Optional {
			if n.Get(f.Name) != nil {
				w.bit(1)
			} else {
				w.bit(0)
			}
		}
	}
	for _, f := range td.Fields {
		fp := ParseTag(f.Tag)
		v := n.Get(f.Name)
		if v == nil {
			if fp.Optional {
				continue
			}
			return fmt.Errorf("refper: mandatory component %s.%s absent", typ, f.Name)
		}
		if fp.OpenType {
			rv, err := refValue(n.Get(fp.RefFieldName))
			if err != nil {
				return err
			}
			fp.RefFieldValue = &rv
		}
		if err := c.enc(w, f.Type, fp, v); err != nil {
			return err
		}
	}
	return nil
}

// Encode returns the complete encoding (X.691 10.1: at least one octet, padded to an octet boundary).
func (c *Codec) Encode(typ, tag string, n *Node) ([]byte, error) {
	w := &bitWriter{}
	if err := c.enc(w, typ, ParseTag(tag), n); err != nil {
		return nil, err
	}
	if len(w.b) == 0 {
		return []byte{0}, nil
	}
	return w.b, nil
}

// ---- decoding ----

func decConstrained(r *bitReader, rg int64) (uint64, error) {
	switch {
	case rg <= 0:
		return 0, fmt.Errorf("refper: bad range")
	case rg == 1:
		return 0, nil
	case rg <= 255:
		return r.bits(bitsFor(rg))
	case rg == 256:
		if err := r.align(); err != nil {
			return 0, err
		}
		return r.bits(8)
	case rg <= 65536:
		if err := r.align(); err != nil {
			return 0, err
		}
		return r.bits(16)
	}
	return 0, fmt.Errorf("refper: range too large")
}

// decGeneralLength reads fragments; take(n) consumes the content of one fragment.
func decGeneralLength(r *bitReader, take func(n uint64) error) error {
	for {
		if err := r.align(); err != nil {
			return err
		}
		b, err := r.bits(8)
		if err != nil {
			return err
		}
		switch {
		case b&0x80 == 0:
			return take(b)
		case b&0x40 == 0:
			b2, err := r.bits(8)
			if err != nil {
				return err
			}
			return take((b&0x3f)<<8 | b2)
		default:
			m := b & 0x3f
			if m < 1 || m > 4 {
				return fmt.Errorf("refper: bad fragment multiplier %d", m)
			}
			if err := take(m * 16384); err != nil {
				return err
			}
		}
	}
}

func decSizeBounds(r *bitReader, p Params) (lb, ub int64, err error) {
	lb, ub = 0, -1
	if p.SizeLB != nil {
		lb = *p.SizeLB
	}
	if p.SizeUB != nil {
		ub = *p.SizeUB
	}
	if p.SizeExt {
		e, err := r.bit()
		if err != nil {
			return 0, 0, err
		}
		if e == 1 {
			return 0, -1, nil
		}
	}
	return
}

func (c *Codec) dec(r *bitReader, typ string, p Params) (*Node, error) {
	switch {
	case typ == "#int":
		return decInt(r, p)
	case typ == "#bool":
		b, err := r.bit()
		return &Node{Kind: "bool", I: int64(b)}, err
	case typ == "#enum":
		if p.ValueLB == nil || p.ValueUB == nil {
			return nil, fmt.Errorf("refper: ENUMERATED without bounds")
		}
		if p.ValueExt {
			e, err := r.bit()
			if err != nil {
				return nil, err
			}
			if e == 1 {
				return nil, fmt.Errorf("refper: ENUMERATED extension value not supported")
			}
		}
		v, err := decConstrained(r, *p.ValueUB-*p.ValueLB+1)
		if err == nil && int64(v) > *p.ValueUB {
			err = fmt.Errorf("refper: ENUMERATED index %d outside root", v)
		}
		return Enum(int64(v)), err
	case typ == "#bits":
		lb, ub, err := decSizeBounds(r, p)
		if err != nil {
			return nil, err
		}
		if ub >= 0 && ub < 65536 {
			n := uint64(ub)
			if lb != ub {
				v, err := decConstrained(r, ub-lb+1)
				if err != nil {
					return nil, err
				}
				n = v + uint64(lb)
				if int64(n) > ub {
					return nil, fmt.Errorf("refper: BIT STRING length %d above %d", n, ub)
				}
				if n > 0 {
					if err := r.align(); err != nil {
						return nil, err
					}
				}
			} else if n > 16 {
				if err := r.align(); err != nil {
					return nil, err
				}
			}
			b, err := r.rawBits(n)
			return Bits(b, n), err
		}
		out := &Node{Kind: "bits"}
		var all []byte
		var total uint64
		err = decGeneralLength(r, func(n uint64) error {
			if n == 0 {
				return nil
			}
			if err := r.align(); err != nil {
				return err
			}
			b, err := r.rawBits(n)
			if err != nil {
				return err
			}
			all = append(all, b...) // fragments are multiples of 8 bits except the last
			total += n
			return nil
		})
		out.B, out.NBits = all, total
		if out.B == nil {
			out.B = []byte{}
		}
		return out, err
	case typ == "#octets" || typ == "#string":
		kind := "octets"
		if typ == "#string" {
			kind = "string"
		}
		lb, ub, err := decSizeBounds(r, p)
		if err != nil {
			return nil, err
		}
		if ub >= 0 && ub < 65536 {
			n := uint64(ub)
			if lb != ub {
				v, err := decConstrained(r, ub-lb+1)
				if err != nil {
					return nil, err
				}
				n = v + uint64(lb)
				if int64(n) > ub {
					return nil, fmt.Errorf("refper: string length %d above %d", n, ub)
				}
				if n == 0 {
					return &Node{Kind: kind, B: []byte{}}, nil
				}
				b, err := r.octets(n)
				return &Node{Kind: kind, B: b}, err
			}
			if n > 2 {
				b, err := r.octets(n)
				return &Node{Kind: kind, B: b}, err
			}
			b, err := r.rawBits(8 * n)
			return &Node{Kind: kind, B: b}, err
		}
		all := []byte{}
		err = decGeneralLength(r, func(n uint64) error {
			if n == 0 {
				return nil
			}
			b, err := r.octets(n)
			all = append(all, b...)
			return err
		})
		return &Node{Kind: kind, B: all}, err
	case strings.HasPrefix(typ, "[]"):
		lb, ub, err := decSizeBounds(r, p)
		if err != nil {
			return nil, err
		}
		out := &Node{Kind: "list"}
		ep := clearSize(p)
		take := func(n uint64) error {
			for i := uint64(0); i < n; i++ {
				it, err := c.dec(r, typ[2:], ep)
				if err != nil {
					return err
				}
				out.Kids = append(out.Kids, it)
			}
			return nil
		}
		if ub >= 0 && ub < 65536 {
			v, err := decConstrained(r, ub-lb+1)
			if err != nil {
				return nil, err
			}
			if int64(v)+lb > ub {
				return nil, fmt.Errorf("refper: SEQUENCE OF count %d above %d", int64(v)+lb, ub)
			}
			return out, take(v + uint64(lb))
		}
		return out, decGeneralLength(r, take)
	}
	td, ok := c.S.Types[typ]
	if !ok {
		return nil, fmt.Errorf("refper: unknown type %s", typ)
	}
	if td.Kind == "choice" {
		if p.OpenType {
			if p.RefFieldValue == nil {
				return nil, fmt.Errorf("refper: open type without reference value")
			}
			var content []byte
			if err := decGeneralLength(r, func(n uint64) error {
				if n == 0 {
					return nil
				}
				b, err := r.octets(n)
				content = append(content, b...)
				return err
			}); err != nil {
				return nil, err
			}
			for _, alt := range td.Fields {
				ap := ParseTag(alt.Tag)
				if ap.RefFieldValue != nil && *ap.RefFieldValue == *p.RefFieldValue {
					sub := &bitReader{b: content}
					v, err := c.dec(sub, alt.Type, ap)
					if err != nil {
						return nil, fmt.Errorf("in open type %s.%s: %w", typ, alt.Name, err)
					}
					return Choice(alt.Name, v), nil
				}
			}
			return &Node{Kind: "choice", Names: []string{"?unknown"}, Kids: []*Node{Octets(content)}}, nil
		}
		if p.ValueUB == nil {
			return nil, fmt.Errorf("refper: CHOICE %s without valueUB", typ)
		}
		if p.ValueExt {
			e, err := r.bit()
			if err != nil {
				return nil, err
			}
			if e == 1 {
				return nil, fmt.Errorf("refper: CHOICE extension alternative not supported")
			}
		}
		idx, err := decConstrained(r, *p.ValueUB+1)
		if err != nil {
			return nil, err
		}
		if int(idx) >= len(td.Fields) {
			return nil, fmt.Errorf("refper: CHOICE %s index %d out of range", typ, idx)
		}
		alt := td.Fields[idx]
		v, err := c.dec(r, alt.Type, ParseTag(alt.Tag))
		if err != nil {
			return nil, err
		}
		return Choice(alt.Name, v), nil
	}
	out := &Node{Kind: "seq"}
	if p.ValueExt {
		e, err := r.bit()
		if err != nil {
			return nil, err
		}
		if e == 1 {
			return nil, fmt.Errorf("refper: SEQUENCE %s extension additions not supported", typ)
		}
	}
	present := map[string]bool{}
	for _, f := range td.Fields {
		if ParseTag(f.Tag).Optional {
			b, err := r.bit()
			if err != nil {
				return nil, err
			}
			present[f.Name] = b == 1
		}
	}
	for _, f := range td.Fields {
		fp := ParseTag(f.Tag)
		if fp.Optional && !present[f.Name] {
			continue
		}
		if fp.OpenType {
			rv, err := refValue(out.Get(fp.RefFieldName))
			if err != nil {
				return nil, err
			}
			fp.RefFieldValue = &rv
		}
		v, err := c.dec(r, f.Type, fp)
		if err != nil {
			return nil, fmt.Errorf("%s.%s: %w", typ, f.Name, err)
		}
		out.Names = append(out.Names, f.Name)
		out.Kids = append(out.Kids, v)
	}
	return out, nil
}

func decInt(r *bitReader, p Params) (*Node, error) {
	unconstrained := func() (*Node, error) {
		if err := r.align(); err != nil {
			return nil, err
		}
		n, err := r.bits(8)
		if err != nil {
			return nil, err
		}
		if n == 0 || n > 8 {
			return nil, fmt.Errorf("refper: INTEGER of %d octets", n)
		}
		v, err := r.bits(int(8 * n))
		if err != nil {
			return nil, err
		}
		shift := uint(64 - 8*n)
		return Int(int64(v<<shift) >> shift), nil
	}
	if p.ValueLB != nil && p.ValueUB != nil {
		lb, ub := *p.ValueLB, *p.ValueUB
		if p.ValueExt {
			e, err := r.bit()
			if err != nil {
				return nil, err
			}
			if e == 1 {
				return unconstrained()
			}
		}
		rg := ub - lb + 1
		if rg <= 65536 {
			v, err := decConstrained(r, rg)
			if err == nil && int64(v)+lb > ub {
				err = fmt.Errorf("refper: INTEGER %d above %d", int64(v)+lb, ub)
			}
			return Int(int64(v) + lb), err
		}
		max := octetsFor(uint64(ub - lb))
		n, err := r.bits(bitsFor(int64(max)))
		if err != nil {
			return nil, err
		}
		n++
		if int(n) > max {
			return nil, fmt.Errorf("refper: INTEGER length %d above %d", n, max)
		}
		if err := r.align(); err != nil {
			return nil, err
		}
		v, err := r.bits(int(8 * n))
		if err == nil && (v > uint64(ub-lb)) {
			err = fmt.Errorf("refper: INTEGER offset %d above range", v)
		}
		return Int(int64(v) + lb), err
	}
	if p.ValueLB != nil {
		if err := r.align(); err != nil {
			return nil, err
		}
		n, err := r.bits(8)
		if err != nil {
			return nil, err
		}
		if n == 0 || n > 8 {
			return nil, fmt.Errorf("refper: INTEGER of %d octets", n)
		}
		v, err := r.bits(int(8 * n))
		return Int(int64(v) + *p.ValueLB), err
	}
	return unconstrained()
}

// Decode decodes a complete encoding. Trailing bits after the value are ignored (padding).
func (c *Codec) Decode(typ, tag string, b []byte) (*Node, error) {
	return c.dec(&bitReader{b: b}, typ, ParseTag(tag))
}

// PDUTag is the constraint of the top-level NGAP-PDU CHOICE (3 root alternatives, extensible).
const PDUTag = "valueExt,valueLB:0,valueUB:2"
