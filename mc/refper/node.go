package refper

import (
	"fmt"
	"strings"
)

// Node is an abstract ASN.1 value, independent of any Go type of the repository.
type Node struct {
	Kind  string  // int enum bool bits octets string seq choice list
	I     int64   // int, enum, bool(0/1)
	B     []byte  // bits, octets, string
	NBits uint64  // bits
	Names []string // seq: present field names in order ; choice: one name
	Kids  []*Node  // seq: values parallel to Names ; choice: one ; list: items
}

func Int(v int64) *Node        { return &Node{Kind: "int", I: v} }
func Enum(v int64) *Node       { return &Node{Kind: "enum", I: v} }
func Octets(b []byte) *Node    { return &Node{Kind: "octets", B: b} }
func Str(s string) *Node       { return &Node{Kind: "string", B: []byte(s)} }
func Bits(b []byte, n uint64) *Node { return &Node{Kind: "bits", B: b, NBits: n} }
func List(items ...*Node) *Node { return &Node{Kind: "list", Kids: items} }
func Choice(name string, v *Node) *Node {
	return &Node{Kind: "choice", Names: []string{name}, Kids: []*Node{v}}
}

// Seq builds a SEQUENCE value from alternating name, *Node arguments.
func Seq(kv ...interface{}) *Node {
	n := &Node{Kind: "seq"}
	for i := 0; i+1 < len(kv); i += 2 {
		if kv[i+1] == nil {
			continue
		}
		v := kv[i+1].(*Node)
		if v == nil {
			continue
		}
		n.Names = append(n.Names, kv[i].(string))
		n.Kids = append(n.Kids, v)
	}
	return n
}

// Get returns the named member of a seq / the alternative of a choice (nil if absent).
func (n *Node) Get(name string) *Node {
	if n == nil {
		return nil
	}
	for i, k := range n.Names {
		if k == name {
			return n.Kids[i]
		}
	}
	return nil
}

// Path walks Get along a dotted path; a numeric element indexes a list.
func (n *Node) Path(p string) *Node {
	cur := n
	for _, el := range strings.Split(p, ".") {
		if cur == nil {
			return nil
		}
		if cur.Kind == "list" {
			idx := 0
			if _, err := fmt.Sscanf(el, "%d", &idx); err != nil || idx >= len(cur.Kids) {
				return nil
			}
			cur = cur.Kids[idx]
			continue
		}
		cur = cur.Get(el)
	}
	return cur
}

func (n *Node) String() string {
	if n == nil {
		return "<nil>"
	}
	switch n.Kind {
	case "int", "enum", "bool":
		return fmt.Sprint(n.I)
	case "bits":
		return fmt.Sprintf("'%x'/%d", n.B, n.NBits)
	case "octets":
		return fmt.Sprintf("'%x'H", n.B)
	case "string":
		return fmt.Sprintf("%q", n.B)
	case "list":
		var p []string
		for _, k := range n.Kids {
			p = append(p, k.String())
		}
		return "[" + strings.Join(p, ", ") + "]"
	case "choice":
		if len(n.Names) == 0 {
			return "choice:<unset>"
		}
		return n.Names[0] + ":" + n.Kids[0].String()
	case "seq":
		var p []string
		for i, k := range n.Kids {
			p = append(p, n.Names[i]+" "+k.String())
		}
		return "{" + strings.Join(p, ", ") + "}"
	}
	return "?"
}

func Equal(a, b *Node) bool {
	if a == nil || b == nil {
		return a == b
	}
	if a.Kind != b.Kind || a.I != b.I || a.NBits != b.NBits || string(a.B) != string(b.B) || len(a.Kids) != len(b.Kids) || len(a.Names) != len(b.Names) {
		return false
	}
	for i := range a.Names {
		if a.Names[i] != b.Names[i] {
			return false
		}
	}
	for i := range a.Kids {
		if !Equal(a.Kids[i], b.Kids[i]) {
			return false
		}
	}
	return true
}

// FirstDiff returns a description of the first position where a and b differ ("" if equal).
func FirstDiff(a, b *Node, path string) string {
	if a == nil || b == nil {
		if a == b {
			return ""
		}
		return fmt.Sprintf("%s: %s vs %s", path, a.String(), b.String())
	}
	if a.Kind != b.Kind || a.I != b.I || a.NBits != b.NBits || string(a.B) != string(b.B) {
		x, y := *a, *b
		x.Kids, y.Kids = nil, nil
		if len(a.Kids) > 0 || len(b.Kids) > 0 {
			return fmt.Sprintf("%s: kind %s vs %s", path, a.Kind, b.Kind)
		}
		return fmt.Sprintf("%s: %s vs %s", path, a.String(), b.String())
	}
	if a.Kind == "seq" || a.Kind == "choice" {
		if strings.Join(a.Names, ",") != strings.Join(b.Names, ",") {
			return fmt.Sprintf("%s: components [%s] vs [%s]", path, strings.Join(a.Names, ","), strings.Join(b.Names, ","))
		}
	}
	if len(a.Kids) != len(b.Kids) {
		return fmt.Sprintf("%s: %d vs %d elements", path, len(a.Kids), len(b.Kids))
	}
	for i := range a.Kids {
		p := fmt.Sprintf("%s[%d]", path, i)
		if i < len(a.Names) {
			p = path + "." + a.Names[i]
		}
		if d := FirstDiff(a.Kids[i], b.Kids[i], p); d != "" {
			return d
		}
	}
	return ""
}
