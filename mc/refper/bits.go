package refper

import "fmt"

type bitWriter struct {
	b []byte
	n uint64 // number of bits written
}

func (w *bitWriter) bit(v uint64) {
	if w.n%8 == 0 {
		w.b = append(w.b, 0)
	}
	if v&1 != 0 {
		w.b[len(w.b)-1] |= 0x80 >> (w.n % 8)
	}
	w.n++
}

func (w *bitWriter) bits(v uint64, n int) {
	for i := n - 1; i >= 0; i-- {
		w.bit(v >> uint(i))
	}
}

func (w *bitWriter) align() {
	for w.n%8 != 0 {
		w.bit(0)
	}
}

func (w *bitWriter) octets(b []byte) {
	w.align()
	w.b = append(w.b, b...)
	w.n += 8 * uint64(len(b))
}

// rawBits appends the first n bits of b without alignment.
func (w *bitWriter) rawBits(b []byte, n uint64) {
	for i := uint64(0); i < n; i++ {
		w.bit(uint64(b[i/8]>>(7-i%8)) & 1)
	}
}

type bitReader struct {
	b   []byte
	pos uint64
}

var errShort = fmt.Errorf("refper: truncated encoding")

func (r *bitReader) bit() (uint64, error) {
	if r.pos >= 8*uint64(len(r.b)) {
		return 0, errShort
	}
	v := uint64(r.b[r.pos/8]>>(7-r.pos%8)) & 1
	r.pos++
	return v, nil
}

func (r *bitReader) bits(n int) (uint64, error) {
	var v uint64
	for i := 0; i < n; i++ {
		b, err := r.bit()
		if err != nil {
			return 0, err
		}
		v = v<<1 | b
	}
	return v, nil
}

func (r *bitReader) align() error {
	for r.pos%8 != 0 {
		b, err := r.bit()
		if err != nil {
			return err
		}
		if b != 0 {
			return fmt.Errorf("refper: non-zero padding bit")
		}
	}
	return nil
}

func (r *bitReader) octets(n uint64) ([]byte, error) {
	if err := r.align(); err != nil {
		return nil, err
	}
	if r.pos/8+n > uint64(len(r.b)) {
		return nil, errShort
	}
	out := append([]byte{}, r.b[r.pos/8:r.pos/8+n]...)
	r.pos += 8 * n
	return out, nil
}

func (r *bitReader) rawBits(n uint64) ([]byte, error) {
	out := make([]byte, (n+7)/8)
	for i := uint64(0); i < n; i++ {
		b, err := r.bit()
		if err != nil {
			return nil, err
		}
		if b != 0 {
			out[i/8] |= 0x80 >> (i % 8)
		}
	}
	return out, nil
}
