// Package refper is an independent implementation of ITU-T X.691 ALIGNED PER (canonical) driven by a
// frozen schema of the NGAP types.  It shares no code with /repo's aper package and does not import it.
package refper

import (
	"encoding/json"
	"fmt"
	"go/ast"
	"go/parser"
	"go/token"
	"os"
	"path/filepath"
	"sort"
	"strconv"
	"strings"
)

// FieldDef is one member of a SEQUENCE / alternative of a CHOICE.
type FieldDef struct {
	Name string `json:"name"`
	Type string `json:"type"` // "#int" "#enum" "#bool" "#bits" "#octets" "#string" | "[]T" | "T"
	Tag  string `json:"tag,omitempty"`
}

// TypeDef: kind "seq" (SEQUENCE) or "choice" (first Go field is Present: CHOICE or open-type holder).
type TypeDef struct {
	Kind   string     `json:"kind"`
	Fields []FieldDef `json:"fields"`
}

type Schema struct {
	Types map[string]*TypeDef `json:"types"`
}

func LoadSchema(path string) (*Schema, error) {
	b, err := os.ReadFile(path)
	if err != nil {
		return nil, err
	}
	s := &Schema{}
	if err := json.Unmarshal(b, s); err != nil {
		return nil, err
	}
	return s, nil
}

func (s *Schema) Save(path string) error {
	// deterministic output
	names := make([]string, 0, len(s.Types))
	for n := range s.Types {
		names = append(names, n)
	}
	sort.Strings(names)
	var sb strings.Builder
	sb.WriteString("{\"types\": {\n")
	for i, n := range names {
		b, _ := json.Marshal(s.Types[n])
		fmt.Fprintf(&sb, " %q: %s", n, b)
		if i < len(names)-1 {
			sb.WriteString(",")
		}
		sb.WriteString("\n")
	}
	sb.WriteString("}}\n")
	return os.WriteFile(path, []byte(sb.String()), 0o644)
}

// ParseGoDir builds a schema from the struct declarations of a Go package directory (go/parser only:
// the package is not compiled or imported).
func ParseGoDir(dir string) (*Schema, error) {
	fset := token.NewFileSet()
	files, err := filepath.Glob(filepath.Join(dir, "*.go"))
	if err != nil {
		return nil, err
	}
	s := &Schema{Types: map[string]*TypeDef{}}
	for _, f := range files {
		if strings.HasSuffix(f, "_test.go") {
			continue
		}
		af, err := parser.ParseFile(fset, f, nil, 0)
		if err != nil {
			return nil, err
		}
		for _, d := range af.Decls {
			gd, ok := d.(*ast.GenDecl)
			if !ok || gd.Tok != token.TYPE {
				continue
			}
			for _, sp := range gd.Specs {
				ts := sp.(*ast.TypeSpec)
				st, ok := ts.Type.(*ast.StructType)
				if !ok {
					continue
				}
				td := &TypeDef{Kind: "seq"}
				for i, fl := range st.Fields.List {
					if len(fl.Names) != 1 {
						return nil, fmt.Errorf("%s: unsupported field list in %s", f, ts.Name.Name)
					}
					name := fl.Names[0].Name
					if i == 0 && name == "Present" {
						td.Kind = "choice"
						continue
					}
					tag := ""
					if fl.Tag != nil {
						raw, _ := strconv.Unquote(fl.Tag.Value)
						tag = structTagGet(raw, "aper")
					}
					td.Fields = append(td.Fields, FieldDef{Name: name, Type: typeExpr(fl.Type), Tag: tag})
				}
				s.Types[ts.Name.Name] = td
			}
		}
	}
	return s, nil
}

func structTagGet(raw, key string) string {
	// minimal reimplementation of reflect.StructTag.Get for `key:"value"`
	i := strings.Index(raw, key+":\"")
	if i < 0 {
		return ""
	}
	rest := raw[i+len(key)+2:]
	j := strings.Index(rest, "\"")
	if j < 0 {
		return ""
	}
	return rest[:j]
}

func typeExpr(e ast.Expr) string {
	switch t := e.(type) {
	case *ast.StarExpr:
		return typeExpr(t.X)
	case *ast.ArrayType:
		return "[]" + typeExpr(t.Elt)
	case *ast.SelectorExpr:
		switch t.Sel.Name {
		case "BitString":
			return "#bits"
		case "OctetString":
			return "#octets"
		case "Enumerated":
			return "#enum"
		}
		return "?" + t.Sel.Name
	case *ast.Ident:
		switch t.Name {
		case "int64", "int32", "int":
			return "#int"
		case "bool":
			return "#bool"
		case "string":
			return "#string"
		}
		return t.Name
	}
	return "?"
}

// Diff lists differences of live against frozen: changed/removed known fields (drift) and additions.
func Diff(frozen, live *Schema) (drift, added []string) {
	for name, ft := range frozen.Types {
		lt, ok := live.Types[name]
		if !ok {
			drift = append(drift, name+": type removed")
			continue
		}
		if lt.Kind != ft.Kind {
			drift = append(drift, name+": kind changed")
		}
		lf := map[string]FieldDef{}
		for _, f := range lt.Fields {
			lf[f.Name] = f
		}
		for _, f := range ft.Fields {
			g, ok := lf[f.Name]
			if !ok {
				drift = append(drift, name+"."+f.Name+": field removed")
			} else if g.Type != f.Type || normTag(g.Tag) != normTag(f.Tag) {
				drift = append(drift, fmt.Sprintf("%s.%s: %s `%s` -> %s `%s`", name, f.Name, f.Type, f.Tag, g.Type, g.Tag))
			}
		}
		ff := map[string]bool{}
		for _, f := range ft.Fields {
			ff[f.Name] = true
		}
		for i, f := range lt.Fields {
			if !ff[f.Name] {
				added = append(added, name+"."+f.Name)
			} else if i < len(ft.Fields) && ft.Fields[i].Name != f.Name && len(lt.Fields) == len(ft.Fields) {
				drift = append(drift, name+": field order changed")
			}
		}
	}
	for name := range live.Types {
		if _, ok := frozen.Types[name]; !ok {
			added = append(added, name)
		}
	}
	sort.Strings(drift)
	sort.Strings(added)
	return
}

func normTag(t string) string {
	p := strings.Split(t, ",")
	sort.Strings(p)
	return strings.Join(p, ",")
}

// Params is the parsed form of a tag.
type Params struct {
	Optional, SizeExt, ValueExt, OpenType bool
	SizeLB, SizeUB, ValueLB, ValueUB      *int64
	RefFieldName                          string
	RefFieldValue                         *int64
}

func ParseTag(tag string) Params {
	var p Params
	num := func(s string) *int64 {
		v, err := strconv.ParseInt(s, 10, 64)
		if err != nil {
			return nil
		}
		return &v
	}
	for _, part := range strings.Split(tag, ",") {
		k, v, _ := strings.Cut(part, ":")
		switch k {
		case "optional":
			p.Optional = true
		case "sizeExt":
			p.SizeExt = true
		case "valueExt":
			p.ValueExt = true
		case "openType":
			p.OpenType = true
		case "sizeLB":
			p.SizeLB = num(v)
		case "sizeUB":
			p.SizeUB = num(v)
		case "valueLB":
			p.ValueLB = num(v)
		case "valueUB":
			p.ValueUB = num(v)
		case "referenceFieldName":
			p.RefFieldName = v
		case "referenceFieldValue":
			p.RefFieldValue = num(v)
		}
	}
	return p
}
