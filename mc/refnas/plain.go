package refnas

import "fmt"

// IE formats of TS 24.007 11.2.1.1
const (
	FmtTVHalf = iota // type 1: IEI in the high nibble, value in the low nibble
	FmtTV            // fixed length, value length given
	FmtTLV
	FmtTLVE
	FmtT // type 2: IEI only
)

type IEDef struct {
	IEI  byte
	Fmt  int
	VLen int // TV: number of value octets
	Name string
}

type IE struct {
	Def   IEDef
	Value []byte // TVHalf: one octet holding the low nibble
}

// ParseOptional walks the optional part of a plain NAS message with the message's IE table (hand-typed
// from the TS 24.501 clause 8 tables). Unknown IEIs are an error.
func ParseOptional(b []byte, table []IEDef) ([]IE, error) {
	var out []IE
	last := -1
	for len(b) > 0 {
		var def *IEDef
		at := -1
		for i := range table {
			d := &table[i]
			if d.Fmt == FmtTVHalf {
				if b[0]>>4 == d.IEI {
					def, at = d, i
				}
			} else if b[0] == d.IEI {
				def, at = d, i
			}
		}
		if def == nil {
			return out, fmt.Errorf("unknown IEI %#x in the optional part (rest %x)", b[0], b)
		}
		// a sender puts the IEs in the order of the message table, each at most once (TS 24.007 11.2.4 / TS 24.501 clause 8)
		if at <= last {
			return out, fmt.Errorf("IE %s (IEI %#x) is repeated or out of the order of the message table", def.Name, def.IEI)
		}
		last = at
		switch def.Fmt {
		case FmtTVHalf:
			out = append(out, IE{*def, []byte{b[0] & 0xf}})
			b = b[1:]
		case FmtT:
			out = append(out, IE{*def, nil})
			b = b[1:]
		case FmtTV:
			if len(b) < 1+def.VLen {
				return out, fmt.Errorf("IE %s truncated", def.Name)
			}
			out = append(out, IE{*def, b[1 : 1+def.VLen]})
			b = b[1+def.VLen:]
		case FmtTLV:
			if len(b) < 2 || len(b) < 2+int(b[1]) {
				return out, fmt.Errorf("IE %s truncated", def.Name)
			}
			out = append(out, IE{*def, b[2 : 2+int(b[1])]})
			b = b[2+int(b[1]):]
		case FmtTLVE:
			if len(b) < 3 {
				return out, fmt.Errorf("IE %s truncated", def.Name)
			}
			n := int(b[1])<<8 | int(b[2])
			if len(b) < 3+n {
				return out, fmt.Errorf("IE %s truncated (length %d, %d left)", def.Name, n, len(b)-3)
			}
			out = append(out, IE{*def, b[3 : 3+n]})
			b = b[3+n:]
		}
	}
	return out, nil
}

func Find(ies []IE, name string) *IE {
	for i := range ies {
		if ies[i].Def.Name == name {
			return &ies[i]
		}
	}
	return nil
}

// IE tables of the uplink messages on the emulator's path (TS 24.501 Release 15, clause 8.2 / 8.3).
var (
	RegistrationRequestIEs = []IEDef{
		{0xC, FmtTVHalf, 0, "Non-current native NAS KSI"}, {0x10, FmtTLV, 0, "5GMM capability"}, {0x2E, FmtTLV, 0, "UE security capability"},
		{0x2F, FmtTLV, 0, "Requested NSSAI"}, {0x52, FmtTV, 6, "Last visited registered TAI"}, {0x17, FmtTLV, 0, "S1 UE network capability"},
		{0x40, FmtTLV, 0, "Uplink data status"}, {0x50, FmtTLV, 0, "PDU session status"}, {0xB, FmtTVHalf, 0, "MICO indication"},
		{0x2B, FmtTLV, 0, "UE status"}, {0x77, FmtTLVE, 0, "Additional GUTI"}, {0x25, FmtTLV, 0, "Allowed PDU session status"},
		{0x18, FmtTLV, 0, "UE's usage setting"}, {0x51, FmtTLV, 0, "Requested DRX parameters"}, {0x70, FmtTLVE, 0, "EPS NAS message container"},
		{0x74, FmtTLVE, 0, "LADN indication"}, {0x8, FmtTVHalf, 0, "Payload container type"}, {0x7B, FmtTLVE, 0, "Payload container"},
		{0x9, FmtTVHalf, 0, "Network slicing indication"}, {0x53, FmtTLV, 0, "5GS update type"}, {0x71, FmtTLVE, 0, "NAS message container"},
	}
	AuthenticationResponseIEs = []IEDef{{0x2D, FmtTLV, 0, "Authentication response parameter"}, {0x78, FmtTLVE, 0, "EAP message"}}
	SecurityModeCompleteIEs   = []IEDef{{0x77, FmtTLVE, 0, "IMEISV"}, {0x71, FmtTLVE, 0, "NAS message container"}}
	RegistrationCompleteIEs   = []IEDef{{0x73, FmtTLVE, 0, "SOR transparent container"}}
	ULNASTransportIEs         = []IEDef{{0x12, FmtTV, 1, "PDU session ID"}, {0x59, FmtTV, 1, "Old PDU session ID"}, {0x8, FmtTVHalf, 0, "Request type"},
		{0x22, FmtTLV, 0, "S-NSSAI"}, {0x25, FmtTLV, 0, "DNN"}, {0x24, FmtTLV, 0, "Additional information"}}
	ServiceRequestIEs = []IEDef{{0x40, FmtTLV, 0, "Uplink data status"}, {0x50, FmtTLV, 0, "PDU session status"},
		{0x25, FmtTLV, 0, "Allowed PDU session status"}, {0x71, FmtTLVE, 0, "NAS message container"}}
	PDUSessionEstablishmentRequestIEs = []IEDef{{0x9, FmtTVHalf, 0, "PDU session type"}, {0xA, FmtTVHalf, 0, "SSC mode"}, {0x28, FmtTLV, 0, "5GSM capability"},
		{0x55, FmtTV, 1, "Maximum number of supported packet filters"}, {0xB, FmtTVHalf, 0, "Always-on PDU session requested"},
		{0x39, FmtTLVE, 0, "SM PDU DN request container"}, {0x7B, FmtTLVE, 0, "Extended protocol configuration options"}}
	PDUSessionReleaseRequestIEs  = []IEDef{{0x59, FmtTV, 1, "5GSM cause"}, {0x7B, FmtTLVE, 0, "Extended protocol configuration options"}}
	PDUSessionReleaseCompleteIEs = []IEDef{{0x59, FmtTV, 1, "5GSM cause"}, {0x7B, FmtTLVE, 0, "Extended protocol configuration options"}}
)

// EncodeSuci: THE 5GS mobile identity of TS 24.501 9.11.3.4 for a SUCI with SUPI format IMSI, routing indicator 0,
// null protection scheme, home network public key identifier 0 (what a UE without a provisioned routing indicator and
// without SUPI concealment sends), octet for octet.
func EncodeSuci(mcc, mnc, msin string) []byte {
	b := []byte{0x01}
	b = append(b, PLMN(mcc, mnc)...)
	b = append(b, 0xf0, 0xff, 0x00, 0x00)
	for i := 0; i < len(msin); i += 2 {
		o := msin[i] - '0'
		if i+1 < len(msin) {
			o |= (msin[i+1] - '0') << 4
		} else {
			o |= 0xf0
		}
		b = append(b, o)
	}
	return b
}

// DecodeSuci: independent TS 24.501 9.11.3.4 decoder for SUPI format IMSI, null scheme.
func DecodeSuci(b []byte) (mcc, mnc, msin string, err error) {
	if len(b) < 9 {
		return "", "", "", fmt.Errorf("5GS mobile identity of %d octets is too short for a SUCI", len(b))
	}
	if b[0]&0x07 != 1 {
		return "", "", "", fmt.Errorf("type of identity %d, want 1 (SUCI)", b[0]&7)
	}
	if (b[0]>>4)&0x07 != 0 {
		return "", "", "", fmt.Errorf("SUPI format %d, want 0 (IMSI)", (b[0]>>4)&7)
	}
	var e error
	get := func(n byte) byte {
		if n > 9 && e == nil {
			e = fmt.Errorf("non-decimal digit %#x", n)
		}
		return '0' + n
	}
	mcc = string([]byte{get(b[1] & 0xf), get(b[1] >> 4), get(b[2] & 0xf)})
	mnc = string([]byte{get(b[3] & 0xf), get(b[3] >> 4)})
	if b[2]>>4 != 0xf {
		mnc += string([]byte{get(b[2] >> 4)})
	}
	if e != nil {
		return "", "", "", e
	}
	if b[6]&0x0f != 0 {
		return "", "", "", fmt.Errorf("protection scheme %d, want 0 (null scheme)", b[6]&0xf)
	}
	out := b[8:]
	for i, o := range out {
		lo, hi := o&0xf, o>>4
		if lo > 9 {
			return "", "", "", fmt.Errorf("MSIN octet %d: non-decimal digit", i)
		}
		msin += string([]byte{'0' + lo})
		if hi == 0xf {
			if i != len(out)-1 {
				return "", "", "", fmt.Errorf("filler before the last MSIN octet")
			}
			break
		}
		if hi > 9 {
			return "", "", "", fmt.Errorf("MSIN octet %d: non-decimal digit", i)
		}
		msin += string([]byte{'0' + hi})
	}
	return
}

// PLMN encodes MCC/MNC in the 3-octet form of TS 24.501 9.11.3.4 / TS 38.413 9.3.3.5.
func PLMN(mcc, mnc string) []byte {
	d := func(c byte) byte { return c - '0' }
	m3 := byte(0xf)
	if len(mnc) == 3 {
		m3 = d(mnc[2])
	}
	return []byte{d(mcc[1])<<4 | d(mcc[0]), m3<<4 | d(mcc[2]), d(mnc[1])<<4 | d(mnc[0])}
}
