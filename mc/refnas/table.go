package refnas

import (
	"encoding/json"
	"fmt"
	"os"
)

type TMand struct {
	IE    string `json:"ie"`
	Fmt   string `json:"fmt"` // V | LV | LV-E
	Len   int    `json:"len"`
	Cap   int    `json:"cap"`
	Fixed bool   `json:"fixed"`
}

type TOpt struct {
	IE     string `json:"ie"`
	IEI    byte   `json:"iei"`
	Fmt    string `json:"fmt"` // TV-half | TV | TLV | TLV-E
	Len    int    `json:"len"`
	Cap    int    `json:"cap"`
	Fixed1 bool   `json:"fixed1"`
	Fixed  bool   `json:"fixed"`
}

type TMsg struct {
	Name      string  `json:"name"`
	EPD       byte    `json:"epd"`
	MsgType   byte    `json:"msgType"`
	Mandatory []TMand `json:"mandatory"`
	Optional  []TOpt  `json:"optional"`
}

type Table struct {
	Messages []TMsg   `json:"messages"`
	Notes    []string `json:"notes"`
}

func LoadTable(path string) (*Table, error) {
	b, err := os.ReadFile(path)
	if err != nil {
		return nil, err
	}
	t := &Table{}
	return t, json.Unmarshal(b, t)
}

// OptVal is one optional IE of an abstract message: index into the message's table and its value octets
// (TV-half: one octet holding the low nibble).
type OptVal struct {
	Idx int
	Val []byte
}

// Encode lays a message out per TS 24.501 from its table entry: mandatory values in order, then the optional
// IEs in the order given.
func (m *TMsg) Encode(mand [][]byte, opts []OptVal) ([]byte, error) {
	if len(mand) != len(m.Mandatory) {
		return nil, fmt.Errorf("%s: %d mandatory values for %d fields", m.Name, len(mand), len(m.Mandatory))
	}
	var b []byte
	for i, e := range m.Mandatory {
		v := mand[i]
		switch e.Fmt {
		case "V":
			if len(v) != e.Len {
				return nil, fmt.Errorf("%s.%s: V field of %d octets given %d", m.Name, e.IE, e.Len, len(v))
			}
			b = append(b, v...)
		case "LV":
			b = append(append(b, byte(len(v))), v...)
		case "LV-E":
			b = append(append(b, byte(len(v)>>8), byte(len(v))), v...)
		}
	}
	for _, o := range opts {
		e := m.Optional[o.Idx]
		switch e.Fmt {
		case "TV-half":
			b = append(b, e.IEI<<4|o.Val[0]&0x0f)
		case "TV":
			if len(o.Val) != e.Len {
				return nil, fmt.Errorf("%s.%s: TV value of %d octets given %d", m.Name, e.IE, e.Len, len(o.Val))
			}
			b = append(append(b, e.IEI), o.Val...)
		case "TLV":
			b = append(append(b, e.IEI, byte(len(o.Val))), o.Val...)
		case "TLV-E":
			b = append(append(b, e.IEI, byte(len(o.Val)>>8), byte(len(o.Val))), o.Val...)
		}
	}
	return b, nil
}

// Parse is the inverse of Encode (independent walker over the same table).
func (m *TMsg) Parse(b []byte) (mand [][]byte, opts []OptVal, err error) {
	pos := 0
	need := func(n int, what string) error {
		if pos+n > len(b) {
			return fmt.Errorf("%s: truncated in %s", m.Name, what)
		}
		return nil
	}
	for _, e := range m.Mandatory {
		switch e.Fmt {
		case "V":
			if err = need(e.Len, e.IE); err != nil {
				return
			}
			mand = append(mand, b[pos:pos+e.Len])
			pos += e.Len
		case "LV":
			if err = need(1, e.IE); err != nil {
				return
			}
			n := int(b[pos])
			pos++
			if err = need(n, e.IE); err != nil {
				return
			}
			mand = append(mand, b[pos:pos+n])
			pos += n
		case "LV-E":
			if err = need(2, e.IE); err != nil {
				return
			}
			n := int(b[pos])<<8 | int(b[pos+1])
			pos += 2
			if err = need(n, e.IE); err != nil {
				return
			}
			mand = append(mand, b[pos:pos+n])
			pos += n
		}
	}
	for pos < len(b) {
		idx := -1
		for i, e := range m.Optional {
			if e.Fmt == "TV-half" {
				if b[pos]>>4 == e.IEI {
					idx = i
				}
			} else if b[pos] == e.IEI {
				idx = i
			}
		}
		if idx < 0 {
			return mand, opts, fmt.Errorf("%s: unknown IEI %#x at offset %d", m.Name, b[pos], pos)
		}
		e := m.Optional[idx]
		switch e.Fmt {
		case "TV-half":
			opts = append(opts, OptVal{idx, []byte{b[pos] & 0xf}})
			pos++
		case "TV":
			if err = need(1+e.Len, e.IE); err != nil {
				return
			}
			opts = append(opts, OptVal{idx, b[pos+1 : pos+1+e.Len]})
			pos += 1 + e.Len
		case "TLV":
			if err = need(2, e.IE); err != nil {
				return
			}
			n := int(b[pos+1])
			if err = need(2+n, e.IE); err != nil {
				return
			}
			opts = append(opts, OptVal{idx, b[pos+2 : pos+2+n]})
			pos += 2 + n
		case "TLV-E":
			if err = need(3, e.IE); err != nil {
				return
			}
			n := int(b[pos+1])<<8 | int(b[pos+2])
			if err = need(3+n, e.IE); err != nil {
				return
			}
			opts = append(opts, OptVal{idx, b[pos+3 : pos+3+n]})
			pos += 3 + n
		}
	}
	return
}
