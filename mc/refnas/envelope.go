// Package refnas: independent TS 24.501 reference (security envelope, plain-NAS layout). No import from /repo.
package refnas

import (
	"bytes"
	"fmt"

	"mc/refcrypto"
)

const (
	DirUplink   = 0
	DirDownlink = 1
	Bearer3GPP  = 1
)

type SecCtx struct {
	NIA, NEA   int
	KInt, KEnc [16]byte
}

// Protect builds a security protected 5GS NAS message (TS 24.501 9.1.1, 4.4.3, 4.4.4; TS 33.501 6.4.3/6.4.4):
// EPD 7e | security header type | MAC(4) | SQN | message. The message is ciphered for header types 2 and 4;
// the MAC covers SQN || message-as-sent.
func Protect(plain []byte, h byte, c SecCtx, count uint32, dir uint32) []byte {
	msg := append([]byte{}, plain...)
	if h == 2 || h == 4 {
		ks := refcrypto.NEAKeystream(c.NEA, c.KEnc, count, Bearer3GPP, dir, len(msg))
		for i := range msg {
			msg[i] ^= ks[i]
		}
	}
	body := append([]byte{byte(count)}, msg...)
	mac := refcrypto.NIA(c.NIA, c.KInt, count, Bearer3GPP, dir, body)
	out := []byte{0x7e, h}
	out = append(out, mac[:]...)
	return append(out, body...)
}

// Unprotect verifies and deciphers a protected message for the COUNT the receiver estimated.
func Unprotect(b []byte, c SecCtx, count uint32, dir uint32) (plain []byte, h byte, sqn byte, err error) {
	if len(b) < 7 {
		return nil, 0, 0, fmt.Errorf("protected message of %d octets", len(b))
	}
	if b[0] != 0x7e {
		return nil, 0, 0, fmt.Errorf("EPD %#x, want 0x7e", b[0])
	}
	h, sqn = b[1], b[6]
	if h < 1 || h > 4 {
		return nil, h, sqn, fmt.Errorf("security header type %d", h)
	}
	if sqn != byte(count) {
		return nil, h, sqn, fmt.Errorf("sequence number octet %d, expected COUNT %#x (mod 256 = %d)", sqn, count, byte(count))
	}
	mac := refcrypto.NIA(c.NIA, c.KInt, count, Bearer3GPP, dir, b[6:])
	if !bytes.Equal(mac[:], b[2:6]) {
		return nil, h, sqn, fmt.Errorf("MAC %x, expected %x under COUNT %#x", b[2:6], mac, count)
	}
	plain = append([]byte{}, b[7:]...)
	if h == 2 || h == 4 {
		ks := refcrypto.NEAKeystream(c.NEA, c.KEnc, count, Bearer3GPP, dir, len(plain))
		for i := range plain {
			plain[i] ^= ks[i]
		}
	}
	return plain, h, sqn, nil
}
