// Package refamf is an explicit-state reference AMF (+SMF/AUSF/UDM behaviour) for the N2 conversations of the
// emulator. It is written from TS 38.413 / TS 24.501 / TS 33.501 on top of refper, refnas and refcrypto and
// imports nothing from /repo. One transition per received uplink NGAP message: validate it for the current
// state, move, emit the replies a conformant AMF sends (Open5GS message flow).
package refamf

import (
	"bytes"
	"fmt"
	"sort"
	"strings"

	"mc/refcrypto"
	"mc/refnas"
	"mc/refper"
)

// Config: the subscriber database and what the operator knows about the gNB (taken from the emulator's configuration).
type Config struct {
	IMSI      string // initial IMSI; UE i is IMSI+i
	MCC, MNC  string
	K, OPc    []byte
	GnbID     []byte
	GnbBits   uint64
	GnbName   string
	GnbGtpIP  []byte // expected in the setup response transfers (C18)
	SST       byte
	SD        []byte // nil = not checked
	MaxUE     int    // subscribers provisioned: IMSI .. IMSI+MaxUE-1
}

// Choices: the decisions a conformant AMF is free to take (the explorer's alphabet).
type Choices struct {
	RAND        []byte
	SQN         []byte // 6
	AMFField    []byte // 2
	AmfUeIDBase int64
	AmfUeIDStep int64
	NgKSI       byte
	DLNasOpt    uint // bit i: optional IE i of DownlinkNASTransport present (OldAMF, RANPagingPriority, MobilityRestrictionList, IndexToRFSP, UE-AMBR, AllowedNSSAI)
	ICSOpt      uint // optional IEs of InitialContextSetupRequest (OldAMF, UE-AMBR, CoreNetworkAssistanceInformation, MobilityRestrictionList, MaskedIMEISV, EmergencyFallbackIndicator, IndexToRFSP)
	NGSetupShape int  // 0: one GUAMI/PLMN/slice; 1: two GUAMIs, two PLMN support items, two slices; 2: with backup AMF name; 3: GUAMI on another (hosting) PLMN, the UE's PLMN second in the PLMN support list
	SMCOpt      uint // bit0: IMEISV request, bit1: additional 5G security information (RINMR)
	UEIP        [][]byte // per UE index (cycled)
	TEID        [][]byte
	UPFIP       [][]byte
	AmbrDL, AmbrUL int64
	QosRulesLen int
	RejectSession int  // k > 0: the SMF rejects the PDU session establishment of UE number k-1 (0: accepts all)
	SessAmbr    []byte // Session-AMBR contents of the accept (unit DL, value DL, unit UL, value UL); nil = 1000 Mbps both ways
	AcceptOpt   uint // optional IEs of PDU SESSION ESTABLISHMENT ACCEPT in front of the PDU address: bit0 5GSM cause; bit1: IEs of later releases (17, 18, 77) at the end; bit2: SSC mode 3
	PerUE       int  // how the 5G-AKA vector varies from UE to UE: 0 fresh RAND, same SQN; 1 same RAND, SQN+k; 2 fresh RAND, SQN+k; 3 same RAND, same SQN
}

func DefaultChoices() Choices {
	return Choices{RAND: mustHex("23553cbe9637a89d218ae64dae47bf35"), SQN: mustHex("16f3b3f70fc2"), AMFField: []byte{0x80, 0x00},
		AmfUeIDBase: 1, AmfUeIDStep: 1, NgKSI: 0, UEIP: [][]byte{{10, 45, 0, 2}}, TEID: [][]byte{{0, 0, 0, 1}}, UPFIP: [][]byte{{192, 168, 61, 4}},
		AmbrDL: 1000000000, AmbrUL: 1000000000, QosRulesLen: 9}
}

func mustHex(s string) []byte {
	b := make([]byte, len(s)/2)
	for i := range b {
		fmt.Sscanf(s[2*i:2*i+2], "%02x", &b[i])
	}
	return b
}

type ueState int

const (
	stAuthSent ueState = iota + 1
	stSMCSent
	stICSSent    // waiting for InitialContextSetupResponse and Registration Complete
	stRegistered // idle between procedures
	stDeregSent  // Deregistration Accept + UE Context Release Command sent
	stDeregistered
)

var stNames = map[ueState]string{stAuthSent: "AUTH_SENT", stSMCSent: "SMC_SENT", stICSSent: "ICS_SENT", stRegistered: "REGISTERED", stDeregSent: "DEREG_SENT", stDeregistered: "DEREGISTERED"}

type sessState int

const (
	seNone sessState = iota
	seSetupSent
	seActive
	seReleaseSent // release command sent: waiting for the NGAP response and the 5GSM release complete
)

var seNames = map[sessState]string{seNone: "S_NONE", seSetupSent: "S_SETUP_SENT", seActive: "S_ACTIVE", seReleaseSent: "S_RELEASE_SENT"}

type UE struct {
	Index          int
	Supi           string
	RanID, AmfID   int64
	State          ueState
	Sess           sessState
	PSI            byte
	PTI            byte
	gotICSResp     bool
	gotRegComplete bool
	gotRelResp     bool
	gotRelComplete bool
	srPending      bool // service request: ICS request sent, response outstanding
	NSvc           int  // service requests made by this UE
	xres           []byte
	kamf           []byte
	sec            refnas.SecCtx
	secActive      bool
	ulCount        uint32 // next expected uplink COUNT
	ulSeen         map[uint32]bool
	dlCount        uint32 // next downlink COUNT
	regRequest     []byte
	ueSecCap       []byte
	UEIP, TEID, UPF []byte
	nia, nea       int
}

type Violation struct{ Key, Detail string }

type AMF struct {
	Cfg   Config
	Ch    Choices
	C     *refper.Codec
	ngUp  bool
	ues   []*UE
	byRan map[int64]*UE
	byAmf map[int64]*UE
	Viol  []Violation
	// RejectIssued: the SMF rejected a session establishment in this conversation (how the emulator ends is then its own
	// business; what it sends afterwards is still judged)
	RejectIssued bool
	// model coverage
	States      map[string]bool
	Transitions map[string]bool
	Trace       []string
	Uplink, Downlink int
}

func New(cfg Config, ch Choices, c *refper.Codec) *AMF {
	a := &AMF{Cfg: cfg, Ch: ch, C: c, byRan: map[int64]*UE{}, byAmf: map[int64]*UE{}, States: map[string]bool{}, Transitions: map[string]bool{}}
	a.States[a.abstract()] = true
	return a
}

func (a *AMF) UEs() []*UE { return a.ues }

func (a *AMF) violate(key, format string, args ...interface{}) {
	a.Viol = append(a.Viol, Violation{key, fmt.Sprintf(format, args...)})
}

// abstract is the canonical abstract state: NG state + sorted multiset of (UE state, session state, flags).
func (a *AMF) abstract() string {
	var parts []string
	for _, u := range a.ues {
		s := stNames[u.State] + "/" + seNames[u.Sess]
		if u.State == stICSSent {
			s += fmt.Sprintf("/ics=%v,rc=%v", u.gotICSResp, u.gotRegComplete)
		}
		if u.Sess == seReleaseSent {
			s += fmt.Sprintf("/rr=%v,rc=%v", u.gotRelResp, u.gotRelComplete)
		}
		if u.srPending {
			s += "/sr"
		}
		parts = append(parts, s)
	}
	sort.Strings(parts)
	return fmt.Sprintf("NG=%v [%s]", a.ngUp, strings.Join(parts, " "))
}

func (a *AMF) step(kind string, f func() [][]byte) [][]byte {
	before := a.abstract()
	out := f()
	after := a.abstract()
	a.States[after] = true
	a.Transitions[before+" --"+kind+"--> "+after] = true
	a.Trace = append(a.Trace, kind)
	a.Downlink += len(out)
	return out
}

// ---- NGAP helpers ----

func ieNode(id int64, crit int64, alt string, v *refper.Node) *refper.Node {
	return refper.Seq("Id", refper.Seq("Value", refper.Int(id)), "Criticality", refper.Seq("Value", refper.Enum(crit)), "Value", refper.Choice(alt, v))
}

func val(v *refper.Node) *refper.Node { return refper.Seq("Value", v) }

func (a *AMF) pdu(class string, proc int64, crit int64, msg string, ies ...*refper.Node) []byte {
	body := refper.Seq("ProtocolIEs", refper.Seq("List", refper.List(ies...)))
	n := refper.Choice(class, refper.Seq("ProcedureCode", val(refper.Int(proc)), "Criticality", val(refper.Enum(crit)), "Value", refper.Choice(msg, body)))
	b, err := a.C.Encode("NGAPPDU", refper.PDUTag, n)
	if err != nil {
		panic("refamf: cannot encode " + msg + ": " + err.Error())
	}
	return b
}

type ieView struct {
	id, crit int64
	alt      string
	v        *refper.Node
}

func ies(body *refper.Node) []ieView {
	var out []ieView
	l := body.Path("ProtocolIEs.List")
	if l == nil {
		return nil
	}
	for _, it := range l.Kids {
		v := ieView{id: -1, crit: -1}
		if x := it.Path("Id.Value"); x != nil {
			v.id = x.I
		}
		if x := it.Path("Criticality.Value"); x != nil {
			v.crit = x.I
		}
		if h := it.Get("Value"); h != nil && len(h.Names) == 1 {
			v.alt, v.v = h.Names[0], h.Kids[0]
		}
		out = append(out, v)
	}
	return out
}

func findIE(l []ieView, id int64) *ieView {
	for i := range l {
		if l[i].id == id {
			return &l[i]
		}
	}
	return nil
}

// mandatory IEs (id, criticality) per TS 38.413 9.2 for the uplink messages of the conversation; criticality 0 reject 1 ignore.
var mandatory = map[string][][2]int64{
	"NGSetupRequest":                    {{27, 0}, {102, 0}, {21, 1}},
	"InitialUEMessage":                  {{85, 0}, {38, 0}, {121, 0}, {90, 1}},
	"UplinkNASTransport":                {{10, 0}, {85, 0}, {38, 0}, {121, 1}},
	"InitialContextSetupResponse":       {{10, 1}, {85, 1}},
	"PDUSessionResourceSetupResponse":   {{10, 1}, {85, 1}},
	"PDUSessionResourceReleaseResponse": {{10, 1}, {85, 1}, {70, 1}},
	"UEContextReleaseComplete":          {{10, 1}, {85, 1}},
}

var procOf = map[string][2]interface{}{
	"NGSetupRequest": {"InitiatingMessage", int64(21)}, "InitialUEMessage": {"InitiatingMessage", int64(15)}, "UplinkNASTransport": {"InitiatingMessage", int64(46)},
	"InitialContextSetupResponse": {"SuccessfulOutcome", int64(14)}, "PDUSessionResourceSetupResponse": {"SuccessfulOutcome", int64(29)},
	"PDUSessionResourceReleaseResponse": {"SuccessfulOutcome", int64(28)}, "UEContextReleaseComplete": {"SuccessfulOutcome", int64(41)},
}

// HandleUplink is one transition of the model.
func (a *AMF) HandleUplink(b []byte) [][]byte {
	a.Uplink++
	tree, err := a.C.Decode("NGAPPDU", refper.PDUTag, b)
	if err != nil {
		a.violate("uplink/not-decodable", "uplink message %d does not decode as an NGAP PDU: %v (%x)", a.Uplink, err, b)
		return nil
	}
	class := tree.Names[0]
	m := tree.Kids[0]
	proc := int64(-1)
	if x := m.Path("ProcedureCode.Value"); x != nil {
		proc = x.I
	}
	holder := m.Get("Value")
	if holder == nil || len(holder.Names) != 1 {
		a.violate("uplink/no-message", "uplink message %d has no value", a.Uplink)
		return nil
	}
	name, body := holder.Names[0], holder.Kids[0]
	want, known := procOf[name]
	if !known {
		a.violate("uplink/unexpected-message-type", "uplink message %d is a %s, which no step of the conversation expects", a.Uplink, name)
		return nil
	}
	if class != want[0].(string) || proc != want[1].(int64) {
		a.violate("uplink/class-or-procedure-code/"+name, "%s sent as %s with procedure code %d", name, class, proc)
	}
	// what was sent must be THE encoding of what it decodes to (a peer with a stricter decoder than this one would refuse
	// anything else), and no IE may occur twice
	if re, err := a.C.Encode("NGAPPDU", refper.PDUTag, tree); err != nil || !bytes.Equal(re, b) {
		a.violate("uplink/not-the-canonical-encoding/"+name, "%s was sent as %x; its value encodes as %x (%v)", name, b, re, err)
	}
	l := ies(body)
	seenIE := map[int64]bool{}
	for _, ie := range l {
		if seenIE[ie.id] {
			a.violate(fmt.Sprintf("uplink/IE-repeated/%s/%d", name, ie.id), "%s carries IE %d more than once", name, ie.id)
		}
		seenIE[ie.id] = true
	}
	for _, mc := range mandatory[name] {
		ie := findIE(l, mc[0])
		if ie == nil {
			a.violate(fmt.Sprintf("uplink/mandatory-IE-missing/%s/%d", name, mc[0]), "%s lacks mandatory IE %d", name, mc[0])
		} else if ie.crit != mc[1] {
			a.violate(fmt.Sprintf("uplink/IE-criticality/%s/%d", name, mc[0]), "%s IE %d has criticality %d, TS 38.413 says %d", name, mc[0], ie.crit, mc[1])
		}
	}
	if !a.ngUp && name != "NGSetupRequest" {
		a.violate("uplink/before-ng-setup", "%s received before NG Setup", name)
		return nil
	}
	return a.step(name, func() [][]byte {
		switch name {
		case "NGSetupRequest":
			return a.onNGSetup(l)
		case "InitialUEMessage":
			return a.onInitialUE(l)
		case "UplinkNASTransport":
			return a.onUplinkNAS(l)
		case "InitialContextSetupResponse":
			return a.onICSResponse(l)
		case "PDUSessionResourceSetupResponse":
			return a.onSetupResponse(l)
		case "PDUSessionResourceReleaseResponse":
			return a.onReleaseResponse(l)
		case "UEContextReleaseComplete":
			return a.onUEContextReleaseComplete(l)
		}
		return nil
	})
}

func (a *AMF) plmn() []byte { return refnas.PLMN(a.Cfg.MCC, a.Cfg.MNC) }

func (a *AMF) checkULI(l []ieView, msg string) {
	ie := findIE(l, 121)
	if ie == nil || ie.v == nil {
		return
	}
	if len(ie.v.Names) != 1 || ie.v.Names[0] != "UserLocationInformationNR" {
		a.violate("uplink/uli-not-nr/"+msg, "user location information is %v, a gNB reports NR", ie.v.Names)
		return
	}
	u := ie.v.Kids[0]
	for _, p := range []string{"NRCGI.PLMNIdentity.Value", "TAI.PLMNIdentity.Value"} {
		if x := u.Path(p); x == nil || !bytes.Equal(x.B, a.plmn()) {
			a.violate("uplink/uli-plmn/"+msg, "%s in %s is %s, the configured PLMN %s/%s encodes as %x", p, msg, x, a.Cfg.MCC, a.Cfg.MNC, a.plmn())
		}
	}
}

func (a *AMF) onNGSetup(l []ieView) [][]byte {
	if a.ngUp {
		a.violate("ngsetup/repeated", "second NG Setup Request on the association")
	}
	if g := findIE(l, 27); g != nil && g.v != nil {
		gg := g.v.Get("GlobalGNBID")
		if gg == nil {
			a.violate("ngsetup/global-ran-node-id-kind", "GlobalRANNodeID is not a gNB id: %s", g.v)
		} else {
			if p := gg.Path("PLMNIdentity.Value"); p == nil || !bytes.Equal(p.B, a.plmn()) {
				a.violate("ngsetup/plmn", "GlobalGNBID PLMN %s, configured %s/%s = %x", p, a.Cfg.MCC, a.Cfg.MNC, a.plmn())
			}
			id := gg.Path("GNBID.GNBID")
			want := append([]byte{}, a.Cfg.GnbID...)
			if a.Cfg.GnbBits%8 != 0 && len(want) > 0 {
				want[len(want)-1] &= 0xff << (8 - a.Cfg.GnbBits%8)
			}
			if id == nil || id.NBits != a.Cfg.GnbBits || !bytes.Equal(id.B, want) {
				a.violate("ngsetup/gnb-id", "gNB id %s, configured %x/%d", id, a.Cfg.GnbID, a.Cfg.GnbBits)
			}
		}
	}
	if n := findIE(l, 82); n == nil || n.v == nil || string(n.v.Get("Value").B) != a.Cfg.GnbName {
		a.violate("ngsetup/gnb-name", "RAN node name %v, configured %q", n, a.Cfg.GnbName)
	}
	if t := findIE(l, 102); t != nil && t.v != nil {
		for _, item := range t.v.Get("List").Kids {
			for _, bp := range item.Path("BroadcastPLMNList.List").Kids {
				if p := bp.Path("PLMNIdentity.Value"); p == nil || !bytes.Equal(p.B, a.plmn()) {
					a.violate("ngsetup/broadcast-plmn", "broadcast PLMN %s, configured %x", p, a.plmn())
				}
			}
		}
	}
	a.ngUp = true
	guami := func(region byte) *refper.Node {
		return refper.Seq("PLMNIdentity", val(refper.Octets(a.plmn())), "AMFRegionID", val(refper.Bits([]byte{region}, 8)), "AMFSetID", val(refper.Bits([]byte{0x00, 0x40}, 10)), "AMFPointer", val(refper.Bits([]byte{0x00}, 6)))
	}
	snssai := func(sst byte, sd []byte) *refper.Node {
		if sd == nil {
			return refper.Seq("SST", val(refper.Octets([]byte{sst})))
		}
		return refper.Seq("SST", val(refper.Octets([]byte{sst})), "SD", val(refper.Octets(sd)))
	}
	slices := refper.List(refper.Seq("SNSSAI", snssai(a.Cfg.SST, a.Cfg.SD)))
	guamis := refper.List(refper.Seq("GUAMI", guami(2)))
	plmns := refper.List(refper.Seq("PLMNIdentity", val(refper.Octets(a.plmn())), "SliceSupportList", refper.Seq("List", slices)))
	switch a.Ch.NGSetupShape {
	case 1:
		slices.Kids = append(slices.Kids, refper.Seq("SNSSAI", snssai(2, nil)))
		guamis.Kids = append(guamis.Kids, refper.Seq("GUAMI", guami(3)))
		plmns.Kids = append(plmns.Kids, refper.Seq("PLMNIdentity", val(refper.Octets([]byte{0x99, 0xf9, 0x99})), "SliceSupportList", refper.Seq("List", refper.List(refper.Seq("SNSSAI", snssai(1, nil))))))
	case 3:
		// a shared AMF: its GUAMI is on the hosting operator's PLMN, and the UE's PLMN is the second one it supports
		other := []byte{0x99, 0xf9, 0x99}
		guamis.Kids[0] = refper.Seq("GUAMI", refper.Seq("PLMNIdentity", val(refper.Octets(other)), "AMFRegionID", val(refper.Bits([]byte{2}, 8)), "AMFSetID", val(refper.Bits([]byte{0x00, 0x40}, 10)), "AMFPointer", val(refper.Bits([]byte{0x00}, 6))))
		plmns.Kids = []*refper.Node{refper.Seq("PLMNIdentity", val(refper.Octets(other)), "SliceSupportList", refper.Seq("List", refper.List(refper.Seq("SNSSAI", snssai(1, nil))))), plmns.Kids[0]}
	case 2:
		guamis.Kids[0] = refper.Seq("GUAMI", guami(2), "BackupAMFName", val(refper.Str("backup-amf.5gc.mnc001.mcc001.3gppnetwork.org")))
	}
	return [][]byte{a.pdu("SuccessfulOutcome", 21, 0, "NGSetupResponse",
		ieNode(1, 0, "AMFName", val(refper.Str("open5gs-amf0"))),
		ieNode(96, 0, "ServedGUAMIList", refper.Seq("List", guamis)),
		ieNode(86, 1, "RelativeAMFCapacity", val(refper.Int(255))),
		ieNode(80, 0, "PLMNSupportList", refper.Seq("List", plmns)))}
}

func addDigits(imsi string, n int) string {
	b := []byte(imsi)
	for i := len(b) - 1; i >= 0 && n > 0; i-- {
		v := int(b[i]-'0') + n
		b[i] = byte('0' + v%10)
		n = v / 10
	}
	return string(b)
}

func (a *AMF) ranID(l []ieView) (int64, bool) {
	if ie := findIE(l, 85); ie != nil && ie.v != nil {
		return ie.v.Get("Value").I, true
	}
	return 0, false
}
func (a *AMF) amfID(l []ieView) (int64, bool) {
	if ie := findIE(l, 10); ie != nil && ie.v != nil {
		return ie.v.Get("Value").I, true
	}
	return 0, false
}
func nasOf(l []ieView) []byte {
	if ie := findIE(l, 38); ie != nil && ie.v != nil {
		return ie.v.Get("Value").B
	}
	return nil
}

func (a *AMF) onInitialUE(l []ieView) [][]byte {
	a.checkULI(l, "InitialUEMessage")
	ran, ok := a.ranID(l)
	nas := nasOf(l)
	if !ok || len(nas) < 3 {
		a.violate("initialue/malformed", "InitialUEMessage without RAN-UE-NGAP-ID or NAS-PDU")
		return nil
	}
	if nas[0] != 0x7e {
		a.violate("initialue/nas-epd", "NAS-PDU starts with %#x, want 5GMM EPD 0x7e", nas[0])
		return nil
	}
	if nas[1] == 0 && nas[2] == 0x41 {
		return a.onRegistrationRequest(ran, nas)
	}
	// protected initial NAS message: service request of a registered UE
	u := a.byRan[ran]
	if u == nil {
		a.violate("initialue/protected-message-from-unknown-ue", "security protected initial NAS message with RAN-UE-NGAP-ID %d that no registered UE uses", ran)
		return nil
	}
	plain, ok2 := a.unprotect(u, nas, "ServiceRequest")
	if !ok2 {
		return nil
	}
	if len(plain) < 3 || plain[0] != 0x7e || plain[2] != 0x4c {
		a.violate("initialue/not-a-service-request", "protected initial NAS message is %x, expected a Service Request", plain)
		return nil
	}
	return a.onServiceRequest(u, plain)
}

func (a *AMF) onRegistrationRequest(ran int64, nas []byte) [][]byte {
	if len(nas) < 6 {
		a.violate("registration/truncated", "Registration Request of %d octets", len(nas))
		return nil
	}
	regType := nas[3] & 0x07
	if regType != 1 {
		a.violate("registration/type", "5GS registration type %d, expected initial registration (1)", regType)
	}
	idLen := int(nas[4])<<8 | int(nas[5])
	if len(nas) < 6+idLen {
		a.violate("registration/identity-length", "5GS mobile identity length %d exceeds the message (%d octets)", idLen, len(nas))
		return nil
	}
	mcc, mnc, msin, err := refnas.DecodeSuci(nas[6 : 6+idLen])
	if err != nil {
		a.violate("registration/suci", "SUCI does not decode: %v (%x)", err, nas[6:6+idLen])
		return nil
	}
	supi := mcc + mnc + msin
	if exp := refnas.EncodeSuci(mcc, mnc, msin); !bytes.Equal(nas[6:6+idLen], exp) {
		a.violate("registration/suci-not-canonical", "5GS mobile identity %x; the SUCI of %s/%s/%s is %x", nas[6:6+idLen], mcc, mnc, msin, exp)
	}
	if mcc != a.Cfg.MCC || mnc != a.Cfg.MNC {
		a.violate("registration/suci-plmn", "SUCI home network %s/%s, configured %s/%s", mcc, mnc, a.Cfg.MCC, a.Cfg.MNC)
	}
	idx := -1
	for i := 0; i < a.Cfg.MaxUE; i++ {
		if addDigits(a.Cfg.IMSI, i) == supi {
			idx = i
		}
	}
	if idx < 0 {
		a.violate("registration/unknown-subscriber", "SUCI identifies %s, which is none of the %d provisioned subscribers starting at %s", supi, a.Cfg.MaxUE, a.Cfg.IMSI)
		return nil
	}
	for _, o := range a.ues {
		if o.Supi == supi && o.State != stDeregistered {
			a.violate("registration/supi-already-registered", "SUPI %s registers again (UE %d is still %s): UEs must act under different SUPIs", supi, o.Index, stNames[o.State])
		}
	}
	if o := a.byRan[ran]; o != nil && o.State != stDeregistered {
		a.violate("registration/ran-ue-ngap-id-reused", "RAN-UE-NGAP-ID %d is already used by %s", ran, o.Supi)
	}
	opt, err := refnas.ParseOptional(nas[6+idLen:], refnas.RegistrationRequestIEs)
	if err != nil {
		a.violate("registration/optional-ies", "Registration Request: %v", err)
		return nil
	}
	cap := refnas.Find(opt, "UE security capability")
	if cap == nil || len(cap.Value) < 2 {
		a.violate("registration/no-security-capability", "Registration Request without UE security capability")
		return nil
	}
	u := &UE{Index: idx, Supi: supi, RanID: ran, AmfID: (a.Ch.AmfUeIDBase + int64(len(a.ues))*a.Ch.AmfUeIDStep) % (1 << 40), State: stAuthSent, ulSeen: map[uint32]bool{},
		regRequest: append([]byte{}, nas...), ueSecCap: append([]byte{}, cap.Value...)}
	k := len(a.ues)
	u.UEIP = a.Ch.UEIP[k%len(a.Ch.UEIP)]
	u.TEID = a.Ch.TEID[k%len(a.Ch.TEID)]
	u.UPF = a.Ch.UPFIP[k%len(a.Ch.UPFIP)]
	// algorithm selection: strongest the UE advertises among what the AMF supports (NIA2 > NIA1; NEA0 preferred order 2,1,0)
	u.nia, u.nea = -1, -1
	for _, i := range []int{2, 1} {
		if cap.Value[1]&(0x80>>uint(i)) != 0 {
			u.nia = i
			break
		}
	}
	for _, e := range []int{2, 1, 0} {
		if cap.Value[0]&(0x80>>uint(e)) != 0 {
			u.nea = e
			break
		}
	}
	if u.nia < 0 || u.nea < 0 {
		a.violate("registration/no-common-algorithm", "UE security capability %x offers no integrity algorithm the network may use", cap.Value)
		return nil
	}
	a.ues = append(a.ues, u)
	a.byRan[ran] = u
	a.byAmf[u.AmfID] = u
	// 5G-AKA vector
	rand := append([]byte{}, a.Ch.RAND...)
	sqn := append([]byte{}, a.Ch.SQN...)
	if a.Ch.PerUE == 0 || a.Ch.PerUE == 2 {
		rand[15] ^= byte(k) // a fresh RAND per UE
	}
	if a.Ch.PerUE == 1 || a.Ch.PerUE == 2 {
		// the subscriber's SQN advances from one authentication to the next (48-bit addition of the UE index)
		v := uint64(0)
		for _, b := range sqn {
			v = v<<8 | uint64(b)
		}
		v = (v + uint64(k)) & (1<<48 - 1)
		for i := 5; i >= 0; i-- {
			sqn[i] = byte(v)
			v >>= 8
		}
	}
	autn := refcrypto.AUTN(a.Cfg.K, a.Cfg.OPc, rand, sqn, a.Ch.AMFField)
	keys := refcrypto.Derive5G(a.Cfg.K, a.Cfg.OPc, rand, autn[0:6], a.Cfg.MCC, a.Cfg.MNC, supi, byte(u.nea), byte(u.nia))
	u.xres, u.kamf = keys.ResStar, keys.Kamf
	u.sec = refnas.SecCtx{NIA: u.nia, NEA: u.nea, KInt: keys.KnasInt, KEnc: keys.KnasEnc}
	ar := []byte{0x7e, 0x00, 0x56, a.Ch.NgKSI & 0x07, 0x02, 0x00, 0x00, 0x21}
	ar = append(ar, rand...)
	ar = append(ar, 0x20, 0x10)
	ar = append(ar, autn...)
	return [][]byte{a.dlNAS(u, ar)}
}

// dlNAS wraps a NAS PDU into DownlinkNASTransport with the optional IEs chosen.
func (a *AMF) dlNAS(u *UE, nas []byte) []byte {
	list := []*refper.Node{ieNode(10, 0, "AMFUENGAPID", val(refper.Int(u.AmfID))), ieNode(85, 0, "RANUENGAPID", val(refper.Int(u.RanID)))}
	if a.Ch.DLNasOpt&1 != 0 {
		list = append(list, ieNode(48, 0, "OldAMF", val(refper.Str("old-amf"))))
	}
	if a.Ch.DLNasOpt&2 != 0 {
		list = append(list, ieNode(83, 1, "RANPagingPriority", val(refper.Int(5))))
	}
	list = append(list, ieNode(38, 0, "NASPDU", val(refper.Octets(nas))))
	if a.Ch.DLNasOpt&4 != 0 {
		list = append(list, ieNode(36, 1, "MobilityRestrictionList", refper.Seq("ServingPLMN", val(refper.Octets(a.plmn())))))
	}
	if a.Ch.DLNasOpt&8 != 0 {
		list = append(list, ieNode(31, 1, "IndexToRFSP", val(refper.Int(256))))
	}
	if a.Ch.DLNasOpt&16 != 0 {
		list = append(list, ieNode(110, 1, "UEAggregateMaximumBitRate", refper.Seq("UEAggregateMaximumBitRateDL", val(refper.Int(a.Ch.AmbrDL)), "UEAggregateMaximumBitRateUL", val(refper.Int(a.Ch.AmbrUL)))))
	}
	if a.Ch.DLNasOpt&32 != 0 {
		list = append(list, ieNode(0, 0, "AllowedNSSAI", a.allowedNSSAI()))
	}
	return a.pdu("InitiatingMessage", 4, 1, "DownlinkNASTransport", list...)
}

func (a *AMF) snssaiNode() *refper.Node {
	if a.Cfg.SD == nil {
		return refper.Seq("SST", val(refper.Octets([]byte{a.Cfg.SST})))
	}
	return refper.Seq("SST", val(refper.Octets([]byte{a.Cfg.SST})), "SD", val(refper.Octets(a.Cfg.SD)))
}

func (a *AMF) allowedNSSAI() *refper.Node {
	return refper.Seq("List", refper.List(refper.Seq("SNSSAI", a.snssaiNode())))
}

// protect builds a downlink protected NAS message and advances the downlink COUNT.
func (a *AMF) protect(u *UE, plain []byte, h byte) []byte {
	if h >= 3 {
		u.dlCount = 0
	}
	out := refnas.Protect(plain, h, u.sec, u.dlCount, refnas.DirDownlink)
	u.dlCount++
	return out
}

// unprotect verifies an uplink protected NAS message: header type, COUNT = previous + 1 (never reused), MAC.
func (a *AMF) unprotect(u *UE, nas []byte, what string) ([]byte, bool) {
	if len(nas) < 7 || nas[0] != 0x7e {
		a.violate("nas/not-protected/"+what, "%s from %s is not a security protected 5GMM message: %x", what, u.Supi, nas)
		return nil, false
	}
	h := nas[1]
	wantH := byte(2)
	if what == "SecurityModeComplete" {
		wantH = 4
	}
	if h != wantH {
		a.violate("nas/security-header-type/"+what, "%s carries security header type %d, expected %d", what, h, wantH)
	}
	if h == 4 || h == 3 {
		u.ulCount = 0
	}
	plain, _, sqn, err := refnas.Unprotect(nas, u.sec, u.ulCount, refnas.DirUplink)
	if err != nil {
		// look for the COUNT the sender actually used, to name the failure precisely
		for c := uint32(0); c < 512; c++ {
			if _, _, _, e2 := refnas.Unprotect(nas, u.sec, c, refnas.DirUplink); e2 == nil {
				if u.ulSeen[c] {
					a.violate("nas/count-reused/"+what, "%s from %s uses uplink NAS COUNT %d again under the same key", what, u.Supi, c)
				} else {
					a.violate("nas/count-not-previous-plus-one/"+what, "%s from %s uses uplink NAS COUNT %d, expected %d", what, u.Supi, c, u.ulCount)
				}
				return nil, false
			}
		}
		a.violate("nas/mac-invalid/"+what, "%s from %s (SQN %d, expected COUNT %d): %v", what, u.Supi, sqn, u.ulCount, err)
		return nil, false
	}
	if u.ulSeen[u.ulCount] {
		a.violate("nas/count-reused/"+what, "%s from %s uses uplink NAS COUNT %d again under the same key", what, u.Supi, u.ulCount)
	}
	u.ulSeen[u.ulCount] = true
	u.ulCount++
	return plain, true
}

func (a *AMF) ueFor(l []ieView, msg string) *UE {
	amf, ok1 := a.amfID(l)
	ran, ok2 := a.ranID(l)
	if !ok1 || !ok2 {
		a.violate("uplink/ue-ids-missing/"+msg, "%s without UE NGAP ids", msg)
		return nil
	}
	u := a.byAmf[amf]
	if u == nil {
		a.violate("uplink/unknown-amf-ue-ngap-id/"+msg, "%s carries AMF-UE-NGAP-ID %d, which the AMF never assigned", msg, amf)
		if u2 := a.byRan[ran]; u2 != nil {
			a.violate("uplink/amf-ue-ngap-id-not-the-assigned-one/"+msg, "UE with RAN-UE-NGAP-ID %d was given AMF-UE-NGAP-ID %d but sends %d", ran, u2.AmfID, amf)
		}
		return nil
	}
	if u.RanID != ran {
		a.violate("uplink/ran-ue-ngap-id-changed/"+msg, "%s for AMF-UE-NGAP-ID %d carries RAN-UE-NGAP-ID %d, the UE context has %d", msg, amf, ran, u.RanID)
	}
	return u
}

func (a *AMF) onUplinkNAS(l []ieView) [][]byte {
	a.checkULI(l, "UplinkNASTransport")
	u := a.ueFor(l, "UplinkNASTransport")
	if u == nil {
		return nil
	}
	nas := nasOf(l)
	if len(nas) < 3 {
		a.violate("ulnas/empty", "UplinkNASTransport with a NAS-PDU of %d octets", len(nas))
		return nil
	}
	switch u.State {
	case stAuthSent:
		if nas[0] != 0x7e || nas[1] != 0 || nas[2] != 0x57 {
			a.violate("auth/unexpected-message", "expected a plain Authentication Response from %s, got %x", u.Supi, nas)
			return nil
		}
		opt, err := refnas.ParseOptional(nas[3:], refnas.AuthenticationResponseIEs)
		if err != nil {
			a.violate("auth/optional-ies", "Authentication Response: %v", err)
			return nil
		}
		p := refnas.Find(opt, "Authentication response parameter")
		if p == nil || !bytes.Equal(p.Value, u.xres) {
			a.violate("auth/res-star", "RES* %x from %s differs from XRES* %x", p, u.Supi, u.xres)
			return nil
		}
		u.State = stSMCSent
		smc := []byte{0x7e, 0x00, 0x5d, byte(u.nea)<<4 | byte(u.nia), a.Ch.NgKSI & 7, byte(len(u.ueSecCap))}
		smc = append(smc, u.ueSecCap...)
		if a.Ch.SMCOpt&1 != 0 {
			smc = append(smc, 0xe1)
		}
		if a.Ch.SMCOpt&2 != 0 {
			smc = append(smc, 0x36, 0x01, 0x02)
		}
		return [][]byte{a.dlNAS(u, a.protect(u, smc, 3))}
	case stSMCSent:
		plain, ok := a.unprotect(u, nas, "SecurityModeComplete")
		if !ok {
			return nil
		}
		if len(plain) < 3 || plain[0] != 0x7e || plain[2] != 0x5e {
			a.violate("smc/unexpected-message", "expected Security Mode Complete, got %x", plain)
			return nil
		}
		opt, err := refnas.ParseOptional(plain[3:], refnas.SecurityModeCompleteIEs)
		if err != nil {
			a.violate("smc/optional-ies", "Security Mode Complete: %v", err)
			return nil
		}
		if c := refnas.Find(opt, "NAS message container"); c != nil {
			// the complete initial NAS message: a Registration Request with the same identity
			if len(c.Value) < 6 || c.Value[0] != 0x7e || c.Value[2] != 0x41 {
				a.violate("smc/container-not-registration-request", "NAS message container holds %x", c.Value)
			} else {
				n := int(c.Value[4])<<8 | int(c.Value[5])
				o := int(u.regRequest[4])<<8 | int(u.regRequest[5])
				if len(c.Value) < 6+n || !bytes.Equal(c.Value[6:6+n], u.regRequest[6:6+o]) {
					a.violate("smc/container-identity-differs", "Registration Request in the NAS message container carries another identity than the initial one")
				}
			}
		} else if a.Ch.SMCOpt&2 != 0 {
			a.violate("smc/no-retransmitted-registration-request", "Security Mode Command asked for the initial NAS message (RINMR) but Security Mode Complete has no NAS message container")
		}
		u.secActive = true
		u.State = stICSSent
		// Registration Accept: result 3GPP access; 5G-GUTI; allowed NSSAI; T3512
		guti := []byte{0xf2}
		guti = append(guti, a.plmn()...)
		guti = append(guti, 0x02, 0x00, 0x40, 0xc0, 0x00, 0x00, byte(u.Index))
		ra := []byte{0x7e, 0x00, 0x42, 0x01, 0x01, 0x77, 0x00, byte(len(guti))}
		ra = append(ra, guti...)
		ra = append(ra, 0x5e, 0x01, 0x06)
		return [][]byte{a.icsRequest(u, a.protect(u, ra, 2), false)}
	case stICSSent:
		plain, ok := a.unprotect(u, nas, "RegistrationComplete")
		if !ok {
			return nil
		}
		if len(plain) < 3 || plain[0] != 0x7e || plain[2] != 0x43 {
			a.violate("registration/expected-complete", "expected Registration Complete from %s, got %x", u.Supi, plain)
			return nil
		}
		if _, err := refnas.ParseOptional(plain[3:], refnas.RegistrationCompleteIEs); err != nil {
			a.violate("registration/complete-optional-ies", "Registration Complete: %v", err)
		}
		u.gotRegComplete = true
		if u.gotICSResp {
			u.State = stRegistered
		}
		// Configuration Update Command: full network name
		cuc := []byte{0x7e, 0x00, 0x54, 0x43, 0x08, 0x90}
		cuc = append(cuc, []byte("Open5GS")...)
		return [][]byte{a.dlNAS(u, a.protect(u, cuc, 2))}
	case stRegistered:
		plain, ok := a.unprotect(u, nas, "UplinkNAS")
		if !ok {
			return nil
		}
		if len(plain) < 3 || plain[0] != 0x7e {
			a.violate("ulnas/not-5gmm", "uplink NAS message %x", plain)
			return nil
		}
		if plain[1] != 0x00 {
			// inside the protected message sits a plain one: security header type 0000, spare half octet 0000
			a.violate("ulnas/second-octet-of-the-plain-message", "plain 5GMM message %x inside the protected one has %#x as its second octet", plain[:3], plain[1])
		}
		switch plain[2] {
		case 0x67:
			return a.onULNASTransport(u, plain)
		case 0x45:
			return a.onDeregistrationRequest(u, plain)
		case 0x43:
			a.violate("registration/complete-repeated", "second Registration Complete from %s", u.Supi)
			return nil
		}
		a.violate("ulnas/unexpected-message-type", "5GMM message type %#x from registered UE %s is not part of the conversation", plain[2], u.Supi)
		return nil
	case stDeregSent, stDeregistered:
		a.violate("prerequisite/message-after-deregistration", "UplinkNASTransport from %s after its deregistration", u.Supi)
		return nil
	}
	return nil
}

func (a *AMF) icsRequest(u *UE, nas []byte, withSession bool) []byte {
	list := []*refper.Node{ieNode(10, 0, "AMFUENGAPID", val(refper.Int(u.AmfID))), ieNode(85, 0, "RANUENGAPID", val(refper.Int(u.RanID)))}
	if a.Ch.ICSOpt&1 != 0 {
		list = append(list, ieNode(48, 0, "OldAMF", val(refper.Str("old-amf"))))
	}
	if a.Ch.ICSOpt&2 != 0 || withSession {
		list = append(list, ieNode(110, 0, "UEAggregateMaximumBitRate", refper.Seq("UEAggregateMaximumBitRateDL", val(refper.Int(a.Ch.AmbrDL)), "UEAggregateMaximumBitRateUL", val(refper.Int(a.Ch.AmbrUL)))))
	}
	if a.Ch.ICSOpt&4 != 0 {
		tai := refper.Seq("TAI", refper.Seq("PLMNIdentity", val(refper.Octets(a.plmn())), "TAC", val(refper.Octets([]byte{0, 0, 1}))))
		list = append(list, ieNode(18, 1, "CoreNetworkAssistanceInformation", refper.Seq("UEIdentityIndexValue", refper.Choice("IndexLength10", refper.Bits([]byte{0xab, 0xc0}, 10)),
			"PeriodicRegistrationUpdateTimer", val(refper.Bits([]byte{0x26}, 8)), "TAIListForInactive", refper.Seq("List", refper.List(tai)))))
	}
	list = append(list, ieNode(28, 0, "GUAMI", refper.Seq("PLMNIdentity", val(refper.Octets(a.plmn())), "AMFRegionID", val(refper.Bits([]byte{2}, 8)), "AMFSetID", val(refper.Bits([]byte{0x00, 0x40}, 10)), "AMFPointer", val(refper.Bits([]byte{0}, 6)))))
	if withSession {
		item := refper.Seq("PDUSessionID", val(refper.Int(int64(u.PSI))), "SNSSAI", a.snssaiNode(), "PDUSessionResourceSetupRequestTransfer", refper.Octets(a.setupTransfer(u)))
		list = append(list, ieNode(71, 0, "PDUSessionResourceSetupListCxtReq", refper.Seq("List", refper.List(item))))
	}
	list = append(list, ieNode(0, 0, "AllowedNSSAI", a.allowedNSSAI()))
	list = append(list, ieNode(119, 0, "UESecurityCapabilities", refper.Seq("NRencryptionAlgorithms", val(refper.Bits([]byte{0xe0, 0}, 16)), "NRintegrityProtectionAlgorithms", val(refper.Bits([]byte{0xe0, 0}, 16)),
		"EUTRAencryptionAlgorithms", val(refper.Bits([]byte{0, 0}, 16)), "EUTRAintegrityProtectionAlgorithms", val(refper.Bits([]byte{0, 0}, 16)))))
	kgnb := refcrypto.KDF(u.kamf, 0x6e, []byte{0, 0, 0, byte(u.ulCount - 1)}, []byte{0x01})
	list = append(list, ieNode(94, 0, "SecurityKey", val(refper.Bits(kgnb, 256))))
	if a.Ch.ICSOpt&8 != 0 {
		list = append(list, ieNode(36, 1, "MobilityRestrictionList", refper.Seq("ServingPLMN", val(refper.Octets(a.plmn())))))
	}
	if a.Ch.ICSOpt&64 != 0 {
		list = append(list, ieNode(31, 1, "IndexToRFSP", val(refper.Int(1))))
	}
	if a.Ch.ICSOpt&16 != 0 {
		list = append(list, ieNode(34, 1, "MaskedIMEISV", val(refper.Bits([]byte{0x35, 0x36, 0x01, 0xff, 0xff, 0x00, 0x01, 0x00}, 64))))
	}
	list = append(list, ieNode(38, 1, "NASPDU", val(refper.Octets(nas))))
	if a.Ch.ICSOpt&32 != 0 {
		list = append(list, ieNode(24, 0, "EmergencyFallbackIndicator", refper.Seq("EmergencyFallbackRequestIndicator", val(refper.Enum(0)))))
	}
	return a.pdu("InitiatingMessage", 14, 0, "InitialContextSetupRequest", list...)
}

func (a *AMF) onICSResponse(l []ieView) [][]byte {
	u := a.ueFor(l, "InitialContextSetupResponse")
	if u == nil {
		return nil
	}
	switch {
	case u.State == stICSSent && !u.gotICSResp:
		u.gotICSResp = true
		if u.gotRegComplete {
			u.State = stRegistered
		}
	case u.srPending:
		u.srPending = false
		if ie := findIE(l, 72); ie != nil && ie.v != nil {
			for _, it := range ie.v.Get("List").Kids {
				a.checkSetupItem(u, it, "InitialContextSetupResponse")
			}
		}
	default:
		a.violate("prerequisite/ics-response-without-request", "InitialContextSetupResponse from %s while no initial context setup is outstanding (%s)", u.Supi, stNames[u.State])
	}
	return nil
}

// ---- session management ----

func (a *AMF) onULNASTransport(u *UE, plain []byte) [][]byte {
	if len(plain) < 6 {
		a.violate("ulnastransport/truncated", "UL NAS TRANSPORT of %d octets", len(plain))
		return nil
	}
	if plain[3]&0x0f != 1 {
		a.violate("ulnastransport/container-type", "payload container type %d, expected N1 SM information (1)", plain[3]&0xf)
	}
	n := int(plain[4])<<8 | int(plain[5])
	if len(plain) < 6+n {
		a.violate("ulnastransport/container-length", "payload container length %d exceeds the message", n)
		return nil
	}
	sm := plain[6 : 6+n]
	opt, err := refnas.ParseOptional(plain[6+n:], refnas.ULNASTransportIEs)
	if err != nil {
		a.violate("ulnastransport/optional-ies", "UL NAS TRANSPORT: %v", err)
		return nil
	}
	if len(sm) < 4 || sm[0] != 0x2e {
		a.violate("ulnastransport/not-5gsm", "payload container holds %x", sm)
		return nil
	}
	psiIE := refnas.Find(opt, "PDU session ID")
	if psiIE == nil {
		a.violate("session/no-psi-ie", "UL NAS TRANSPORT with a 5GSM message but without the PDU session ID IE")
		return nil
	}
	psi := psiIE.Value[0]
	if sm[1] != psi {
		a.violate("session/psi-differs-between-5gsm-and-transport", "5GSM header PDU session identity %d, UL NAS TRANSPORT PDU session ID %d", sm[1], psi)
	}
	if psi < 1 || psi > 15 {
		a.violate("session/psi-out-of-range", "PDU session identity %d is outside 1..15 (TS 24.007 11.2.3.1b)", psi)
	}
	if (sm[3] == 0xc1 || sm[3] == 0xd1) && (sm[2] == 0 || sm[2] == 255) {
		// UE-requested procedures carry an assigned procedure transaction identity (TS 24.007 11.2.3.1a: 0 = none assigned, 255 reserved)
		a.violate("session/pti-not-assigned-or-reserved", "5GSM message %#x from %s with procedure transaction identity %d (must be 1..254)", sm[3], u.Supi, sm[2])
	}
	switch sm[3] {
	case 0xc1: // establishment request
		if u.Sess != seNone {
			a.violate("prerequisite/session-already-exists", "PDU session establishment request from %s while its session is %s", u.Supi, seNames[u.Sess])
			return nil
		}
		if _, err := refnas.ParseOptional(sm[6:], refnas.PDUSessionEstablishmentRequestIEs); err != nil {
			a.violate("session/establishment-request-ies", "PDU SESSION ESTABLISHMENT REQUEST: %v", err)
		}
		if rt := refnas.Find(opt, "Request type"); rt == nil || rt.Value[0]&7 != 1 {
			a.violate("session/request-type", "request type %v, expected initial request", rt)
		}
		if s := refnas.Find(opt, "S-NSSAI"); s != nil && a.Cfg.SD != nil {
			want := append([]byte{a.Cfg.SST}, a.Cfg.SD...)
			if !bytes.Equal(s.Value, want) {
				a.violate("session/s-nssai", "S-NSSAI %x, configured %x", s.Value, want)
			}
		}
		if a.Ch.RejectSession == u.Index+1 {
			// the SMF cannot serve this session (5GSM cause #26 insufficient resources): PDU SESSION ESTABLISHMENT REJECT in a
			// DL NAS TRANSPORT; the UE has no session, and nothing that needs one may follow for it
			a.RejectIssued = true
			rej := []byte{0x2e, psi, sm[2], 0xc3, 0x1a}
			dl := append([]byte{0x7e, 0x00, 0x68, 0x01, 0x00, byte(len(rej))}, rej...)
			dl = append(dl, 0x12, psi)
			return [][]byte{a.dlNAS(u, a.protect(u, dl, 2))}
		}
		u.PSI, u.PTI, u.Sess = psi, sm[2], seSetupSent
		return [][]byte{a.setupRequest(u)}
	case 0xd1: // release request
		if u.Sess != seActive {
			a.violate("prerequisite/release-without-session", "PDU session release request from %s whose session is %s", u.Supi, seNames[u.Sess])
			return nil
		}
		if psi != u.PSI {
			a.violate("session/psi-changed", "release request for PDU session %d, the established one is %d", psi, u.PSI)
		}
		u.Sess, u.gotRelResp, u.gotRelComplete = seReleaseSent, false, false
		cmd := []byte{0x2e, u.PSI, sm[2], 0xd3, 0x24}
		dl := append([]byte{0x7e, 0x00, 0x68, 0x01, 0x00, byte(len(cmd))}, cmd...)
		dl = append(dl, 0x12, u.PSI)
		tr, _ := a.C.Encode("PDUSessionResourceReleaseCommandTransfer", "valueExt", refper.Seq("Cause", refper.Choice("Nas", val(refper.Enum(0)))))
		item := refper.Seq("PDUSessionID", val(refper.Int(int64(u.PSI))), "PDUSessionResourceReleaseCommandTransfer", refper.Octets(tr))
		return [][]byte{a.pdu("InitiatingMessage", 28, 0, "PDUSessionResourceReleaseCommand",
			ieNode(10, 0, "AMFUENGAPID", val(refper.Int(u.AmfID))), ieNode(85, 0, "RANUENGAPID", val(refper.Int(u.RanID))),
			ieNode(38, 1, "NASPDU", val(refper.Octets(a.protect(u, dl, 2)))),
			ieNode(79, 0, "PDUSessionResourceToReleaseListRelCmd", refper.Seq("List", refper.List(item))))}
	case 0xd4: // release complete
		if u.Sess != seReleaseSent {
			a.violate("prerequisite/release-complete-without-command", "PDU session release complete from %s whose session is %s", u.Supi, seNames[u.Sess])
			return nil
		}
		if psi != u.PSI {
			a.violate("session/psi-changed", "release complete for PDU session %d, the session is %d", psi, u.PSI)
		}
		u.gotRelComplete = true
		if u.gotRelResp {
			u.Sess = seNone
		}
		return nil
	}
	a.violate("session/unexpected-5gsm-message", "5GSM message type %#x is not part of the conversation", sm[3])
	return nil
}

func (a *AMF) setupTransfer(u *UE) []byte {
	tunnel := refper.Choice("GTPTunnel", refper.Seq("TransportLayerAddress", val(refper.Bits(u.UPF, 32)), "GTPTEID", val(refper.Octets(u.TEID))))
	q := refper.Seq("QosCharacteristics", refper.Choice("NonDynamic5QI", refper.Seq("FiveQI", val(refper.Int(9)))),
		"AllocationAndRetentionPriority", refper.Seq("PriorityLevelARP", val(refper.Int(8)), "PreEmptionCapability", val(refper.Enum(0)), "PreEmptionVulnerability", val(refper.Enum(0))))
	flows := refper.List(refper.Seq("QosFlowIdentifier", val(refper.Int(1)), "QosFlowLevelQosParameters", q))
	n := refper.Seq("ProtocolIEs", refper.Seq("List", refper.List(
		ieNode(130, 0, "PDUSessionAggregateMaximumBitRate", refper.Seq("PDUSessionAggregateMaximumBitRateDL", val(refper.Int(a.Ch.AmbrDL)), "PDUSessionAggregateMaximumBitRateUL", val(refper.Int(a.Ch.AmbrUL)))),
		ieNode(139, 0, "ULNGUUPTNLInformation", tunnel),
		ieNode(134, 0, "PDUSessionType", val(refper.Enum(0))),
		ieNode(136, 0, "QosFlowSetupRequestList", refper.Seq("List", flows)))))
	b, err := a.C.Encode("PDUSessionResourceSetupRequestTransfer", "valueExt", n)
	if err != nil {
		panic(err)
	}
	return b
}

func (a *AMF) setupRequest(u *UE) []byte {
	// PDU SESSION ESTABLISHMENT ACCEPT
	rules := make([]byte, a.Ch.QosRulesLen)
	copy(rules, []byte{0x01, 0x00, 0x06, 0x31, 0x31, 0x01, 0x01, 0xff, 0x09})
	acc := []byte{0x2e, u.PSI, u.PTI, 0xc2, 0x11, byte(len(rules) >> 8), byte(len(rules))}
	acc = append(acc, rules...)
	if len(a.Ch.SessAmbr) == 6 {
		acc = append(append(acc, 0x06), a.Ch.SessAmbr...)
	} else {
		acc = append(acc, 0x06, 0x06, 0x03, 0xe8, 0x06, 0x03, 0xe8) // session AMBR 1000 Mbps
	}
	if a.Ch.AcceptOpt&1 != 0 {
		acc = append(acc, 0x59, 0x32) // 5GSM cause #50 "PDU session type IPv4 only allowed"
	}
	acc = append(acc, 0x29, 0x05, 0x01)
	acc = append(acc, u.UEIP...)
	acc = append(acc, 0x22, 0x04, a.Cfg.SST, 1, 2, 3)
	acc = append(acc, 0x79, 0x00, 0x06, 0x01, 0x20, 0x41, 0x01, 0x01, 0x09)
	acc = append(acc, 0x7b, 0x00, 0x08, 0x80, 0x00, 0x0d, 0x04, 8, 8, 8, 8)
	acc = append(acc, 0x25, 0x09, 0x08)
	acc = append(acc, []byte("internet")...)
	if a.Ch.AcceptOpt&2 != 0 {
		// IEs of later releases behind the Release 15 ones: 5GSM network feature support, serving PLMN rate control
		// (a value whose octets look like a PDU address IE), ATSSS container
		acc = append(acc, 0x17, 0x01, 0x29, 0x18, 0x02, 0x01, 0x29, 0x77, 0x00, 0x03, 0x29, 0x05, 0x01)
	}
	if a.Ch.AcceptOpt&4 != 0 {
		acc[4] = 0x31 // SSC mode 3 selected, PDU session type IPv4
	}
	dl := []byte{0x7e, 0x00, 0x68, 0x01, byte(len(acc) >> 8), byte(len(acc))}
	dl = append(dl, acc...)
	dl = append(dl, 0x12, u.PSI)
	item := refper.Seq("PDUSessionID", val(refper.Int(int64(u.PSI))), "PDUSessionNASPDU", val(refper.Octets(a.protect(u, dl, 2))), "SNSSAI", a.snssaiNode(),
		"PDUSessionResourceSetupRequestTransfer", refper.Octets(a.setupTransfer(u)))
	return a.pdu("InitiatingMessage", 29, 0, "PDUSessionResourceSetupRequest",
		ieNode(10, 0, "AMFUENGAPID", val(refper.Int(u.AmfID))), ieNode(85, 0, "RANUENGAPID", val(refper.Int(u.RanID))),
		ieNode(74, 0, "PDUSessionResourceSetupListSUReq", refper.Seq("List", refper.List(item))))
}

// SetupRequestSize: the length in octets of the PDU SESSION RESOURCE SETUP REQUEST this AMF would send to a UE with
// the given NGAP ids under the current choices (used to aim at exact message sizes; contents of keys do not matter).
func (a *AMF) SetupRequestSize(amfID, ranID int64) int {
	u := &UE{PSI: 1, PTI: 1, AmfID: amfID, RanID: ranID, UEIP: a.Ch.UEIP[0], TEID: a.Ch.TEID[0], UPF: a.Ch.UPFIP[0]}
	u.sec = refnas.SecCtx{NIA: 2, NEA: 0}
	return len(a.setupRequest(u))
}

func (a *AMF) checkSetupItem(u *UE, it *refper.Node, msg string) {
	if p := it.Path("PDUSessionID.Value"); p == nil || p.I != int64(u.PSI) {
		a.violate("session/psi-differs-in-ngap-response/"+msg, "%s lists PDU session %s, the UE's session (NAS) is %d", msg, p, u.PSI)
	}
	tr := it.Get("PDUSessionResourceSetupResponseTransfer")
	if tr == nil {
		return
	}
	t, err := a.C.Decode("PDUSessionResourceSetupResponseTransfer", "valueExt", tr.B)
	if err != nil {
		a.violate("session/response-transfer-undecodable/"+msg, "%v", err)
		return
	}
	addr := t.Path("QosFlowPerTNLInformation.UPTransportLayerInformation.GTPTunnel.TransportLayerAddress.Value")
	if a.Cfg.GnbGtpIP != nil && (addr == nil || addr.NBits != 32 || !bytes.Equal(addr.B, a.Cfg.GnbGtpIP)) {
		a.violate("session/gnb-gtp-address/"+msg, "gNB tunnel address %s, configured gnb_gtp_ip %v", addr, a.Cfg.GnbGtpIP)
	}
}

func (a *AMF) onSetupResponse(l []ieView) [][]byte {
	u := a.ueFor(l, "PDUSessionResourceSetupResponse")
	if u == nil {
		return nil
	}
	if u.Sess != seSetupSent {
		a.violate("prerequisite/setup-response-without-request", "PDUSessionResourceSetupResponse from %s whose session is %s", u.Supi, seNames[u.Sess])
		return nil
	}
	ie := findIE(l, 75)
	if ie == nil || ie.v == nil || len(ie.v.Get("List").Kids) != 1 {
		a.violate("session/setup-response-list", "PDUSessionResourceSetupResponse does not list exactly the one requested session")
	} else {
		a.checkSetupItem(u, ie.v.Get("List").Kids[0], "PDUSessionResourceSetupResponse")
	}
	u.Sess = seActive
	return nil
}

func (a *AMF) onReleaseResponse(l []ieView) [][]byte {
	u := a.ueFor(l, "PDUSessionResourceReleaseResponse")
	if u == nil {
		return nil
	}
	if u.Sess != seReleaseSent || u.gotRelResp {
		a.violate("prerequisite/release-response-without-command", "PDUSessionResourceReleaseResponse from %s whose session is %s", u.Supi, seNames[u.Sess])
		return nil
	}
	if ie := findIE(l, 70); ie != nil && ie.v != nil {
		for _, it := range ie.v.Get("List").Kids {
			if p := it.Path("PDUSessionID.Value"); p == nil || p.I != int64(u.PSI) {
				a.violate("session/psi-differs-in-ngap-response/PDUSessionResourceReleaseResponse", "release response lists PDU session %s, the session is %d", p, u.PSI)
			}
		}
	}
	u.gotRelResp = true
	if u.gotRelComplete {
		u.Sess = seNone
	}
	return nil
}

func (a *AMF) onServiceRequest(u *UE, plain []byte) [][]byte {
	if u.State != stRegistered {
		a.violate("prerequisite/service-request-unregistered", "Service Request from %s in state %s", u.Supi, stNames[u.State])
		return nil
	}
	if len(plain) < 6 {
		a.violate("service/truncated", "Service Request of %d octets", len(plain))
		return nil
	}
	n := int(plain[4])<<8 | int(plain[5])
	if len(plain) < 6+n {
		a.violate("service/tmsi-length", "5G-S-TMSI length %d exceeds the message", n)
		return nil
	}
	opt, err := refnas.ParseOptional(plain[6+n:], refnas.ServiceRequestIEs)
	if err != nil {
		a.violate("service/optional-ies", "Service Request: %v", err)
	}
	// the sessions the UE asks to have re-activated (uplink data status, TS 24.501 9.11.3.57) are its own
	if ud := refnas.Find(opt, "Uplink data status"); ud != nil && len(ud.Value) >= 2 {
		var named []int
		for psi := 0; psi < 16; psi++ {
			if ud.Value[psi/8]&(1<<uint(psi%8)) != 0 {
				named = append(named, psi)
			}
		}
		switch {
		case len(named) == 1 && named[0] == int(u.PSI):
		case len(named) == 1 && named[0] == 10:
			a.violate("service/uplink-data-status-is-the-constant-session-10", "Service Request of %s names session 10 for re-activation, the UE's session is %d", u.Supi, u.PSI)
		default:
			a.violate("service/uplink-data-status-names-other-sessions", "Service Request of %s names sessions %v for re-activation, the UE's session is %d", u.Supi, named, u.PSI)
		}
	}
	if u.Sess != seActive {
		a.violate("prerequisite/service-request-without-session", "Service Request (data) from %s whose PDU session is %s", u.Supi, seNames[u.Sess])
	}
	u.srPending = true
	u.NSvc++
	sa := []byte{0x7e, 0x00, 0x4e}
	return [][]byte{a.icsRequest(u, a.protect(u, sa, 2), u.Sess == seActive)}
}

func (a *AMF) onDeregistrationRequest(u *UE, plain []byte) [][]byte {
	if len(plain) < 6 {
		a.violate("deregistration/truncated", "Deregistration Request of %d octets", len(plain))
		return nil
	}
	n := int(plain[4])<<8 | int(plain[5])
	if len(plain) < 6+n {
		a.violate("deregistration/identity-length", "5GS mobile identity length %d exceeds the message", n)
		return nil
	}
	id := plain[6 : 6+n]
	if len(id) > 0 && id[0]&7 == 1 {
		mcc, mnc, msin, err := refnas.DecodeSuci(id)
		if err != nil || mcc+mnc+msin != u.Supi {
			a.violate("deregistration/identity", "Deregistration Request identifies %s%s%s (%v), the UE is %s", mcc, mnc, msin, err, u.Supi)
		} else if exp := refnas.EncodeSuci(mcc, mnc, msin); !bytes.Equal(id, exp) {
			a.violate("deregistration/suci-not-canonical", "5GS mobile identity %x; the SUCI of %s/%s/%s is %x", id, mcc, mnc, msin, exp)
		} else if mcc != a.Cfg.MCC || mnc != a.Cfg.MNC {
			// (the same digits split differently are another subscriber of another network)
			a.violate("deregistration/suci-plmn", "Deregistration Request: SUCI home network %s/%s MSIN %s, configured %s/%s", mcc, mnc, msin, a.Cfg.MCC, a.Cfg.MNC)
		}
	}
	switchOff := plain[3]&0x08 != 0
	u.State = stDeregSent
	var out [][]byte
	if !switchOff {
		out = append(out, a.dlNAS(u, a.protect(u, []byte{0x7e, 0x00, 0x46}, 2)))
	}
	pair := refper.Choice("UENGAPIDPair", refper.Seq("AMFUENGAPID", val(refper.Int(u.AmfID)), "RANUENGAPID", val(refper.Int(u.RanID))))
	out = append(out, a.pdu("InitiatingMessage", 41, 0, "UEContextReleaseCommand", ieNode(114, 0, "UENGAPIDs", pair), ieNode(15, 1, "Cause", refper.Choice("Nas", val(refper.Enum(2))))))
	return out
}

func (a *AMF) onUEContextReleaseComplete(l []ieView) [][]byte {
	u := a.ueFor(l, "UEContextReleaseComplete")
	if u == nil {
		return nil
	}
	if u.State != stDeregSent {
		a.violate("prerequisite/context-release-complete-without-command", "UEContextReleaseComplete from %s in state %s", u.Supi, stNames[u.State])
		return nil
	}
	u.State = stDeregistered
	return nil
}

// Summary of the final state for the oracle of the harness.
func (a *AMF) Summary() string {
	var p []string
	for _, u := range a.ues {
		p = append(p, fmt.Sprintf("%s:%s/%s", u.Supi, stNames[u.State], seNames[u.Sess]))
	}
	return strings.Join(p, " ")
}

// StateName: what the AMF knows of the UE at the end: registration state, session state and how many service requests it made.
func (u *UE) StateName() string {
	return fmt.Sprintf("%s/%s/service-requests=%d", stNames[u.State], seNames[u.Sess], u.NSvc)
}
func (u *UE) ULCount() uint32   { return u.ulCount }
