module mc

go 1.21.4
