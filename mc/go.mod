module mc

go 1.21.4

require (
	github.com/ishidawataru/sctp v0.0.0-20210707070123-9a39160e9062
	github.com/sirupsen/logrus v1.9.0
)
