module mc

go 1.21.4

require github.com/sirupsen/logrus v1.9.0
