// Package report collects what one check run covered, decides between VIOLATION and KNOWN-FINDING
// (from the committed, read-only /verif/KNOWN_FINDINGS.txt) and writes the evidence file.
package report

import (
	"bufio"
	"encoding/json"
	"fmt"
	"hash/fnv"
	"os"
	"path/filepath"
	"sort"
	"strings"
	"sync"
	"sync/atomic"
	"time"
)

// Locations (overridable so that a snapshot of /verif or a scratch copy of the repository can be checked
// without touching /verif/.build): VERIF_DIR, VERIF_REPO, VERIF_BUILD.
var (
	VerifDir    = envOr("VERIF_DIR", "/verif")
	RepoDir     = envOr("VERIF_REPO", "/repo")
	BuildDir    = envOr("VERIF_BUILD", filepath.Join(VerifDir, ".build"))
	EvidenceDir = envOr("VERIF_EVIDENCE", filepath.Join(VerifDir, "evidence"))
)

func envOr(k, d string) string {
	if v := os.Getenv(k); v != "" {
		return v
	}
	return d
}

type Violation struct {
	Key    string      `json:"key"`
	Case   string      `json:"case"`
	Detail interface{} `json:"detail"`
	Replay interface{} `json:"replay,omitempty"`
}

type Report struct {
	ID    string
	Tier  string
	Seed  int64
	Level string
	Rule  string

	start time.Time
	evals atomic.Int64

	mu          sync.Mutex
	distinct    map[uint64]struct{}
	outcomes    map[uint64]struct{}
	distinctAdd int64 // cases counted distinct by construction (bitset-style enumerations)
	samples     []interface{}
	viol        map[string]*Violation // unlisted, by key (first = smallest)
	violCount   map[string]int
	known       map[string]*Violation
	knownCount  map[string]int
	Extra       map[string]interface{}
	Assumptions []string
	Exhaustive  bool
	notExh      []string
	sums        map[string]int64
	consist     map[string]string
	states      map[uint64]struct{}
	transitions map[uint64]struct{}
	DropMeta    bool              // WritePartial leaves out Extra/Samples/Rule/Assumptions (non-lead shard of an isolated check)
	knownKeys   map[string]string // key -> text for this property
	harnessErr  []string
}

func New(id, tier string, seed int64, level string) *Report {
	r := &Report{ID: id, Tier: tier, Seed: seed, Level: level, start: time.Now(),
		distinct: map[uint64]struct{}{}, outcomes: map[uint64]struct{}{},
		viol: map[string]*Violation{}, violCount: map[string]int{},
		known: map[string]*Violation{}, knownCount: map[string]int{},
		Extra: map[string]interface{}{}, Exhaustive: true}
	r.knownKeys = loadKnown(id)
	return r
}

// loadKnown reads lines "known: property=<ID> key=<key> <text>" from KNOWN_FINDINGS.txt.
func loadKnown(id string) map[string]string {
	m := map[string]string{}
	f, err := os.Open(filepath.Join(VerifDir, "KNOWN_FINDINGS.txt"))
	if err != nil {
		return m
	}
	defer f.Close()
	sc := bufio.NewScanner(f)
	for sc.Scan() {
		line := strings.TrimSpace(sc.Text())
		if !strings.HasPrefix(line, "known:") {
			continue
		}
		fs := strings.Fields(line)
		if len(fs) < 3 || fs[1] != "property="+id || !strings.HasPrefix(fs[2], "key=") {
			continue
		}
		m[strings.TrimPrefix(fs[2], "key=")] = strings.Join(fs[3:], " ")
	}
	return m
}

func H(s string) uint64 { h := fnv.New64a(); h.Write([]byte(s)); return h.Sum64() }

// Local is a per-goroutine accumulator merged into the report with Merge.
type Local struct {
	r        *Report
	evals    int64
	distinct map[uint64]struct{}
	outcomes map[uint64]struct{}
	states   map[uint64]struct{}
	trans    map[uint64]struct{}
	traces   int64
}

// State / Transition / Trace: lock-free per-goroutine versions of the Report methods (merged by Merge).
func (l *Local) State(h uint64) {
	if l.states == nil {
		l.states = map[uint64]struct{}{}
	}
	l.states[h] = struct{}{}
}

func (l *Local) Transition(h uint64) {
	if l.trans == nil {
		l.trans = map[uint64]struct{}{}
	}
	l.trans[h] = struct{}{}
}

func (l *Local) Trace() { l.traces++ }

func (r *Report) Local() *Local {
	return &Local{r: r, distinct: map[uint64]struct{}{}, outcomes: map[uint64]struct{}{}}
}

// Case records one evaluated case. nontrivial says whether it counts towards distinct_nontrivial.
func (l *Local) Case(caseStr string, nontrivial bool, outcome string) {
	l.evals++
	if nontrivial {
		l.distinct[H(caseStr)] = struct{}{}
	}
	l.outcomes[H(outcome)] = struct{}{}
}

// CaseN records one evaluated case identified by a number unique within the run (an enumeration
// index): distinctness holds by construction and is counted, not hashed.
func (l *Local) CaseN(nontrivial bool, outcome uint64) {
	l.evals++
	if nontrivial {
		l.r.addDistinct(1)
	}
	l.outcomes[outcome] = struct{}{}
}

func (r *Report) addDistinct(n int64) { atomic.AddInt64(&r.distinctAdd, n) }

func (l *Local) Merge() {
	r := l.r
	r.evals.Add(l.evals)
	r.mu.Lock()
	for k := range l.distinct {
		r.distinct[k] = struct{}{}
	}
	for k := range l.outcomes {
		if len(r.outcomes) < 1<<20 {
			r.outcomes[k] = struct{}{}
		}
	}
	if len(l.states) > 0 || len(l.trans) > 0 {
		if r.states == nil {
			r.states, r.transitions = map[uint64]struct{}{}, map[uint64]struct{}{}
		}
		if r.transitions == nil {
			r.transitions = map[uint64]struct{}{}
		}
		for k := range l.states {
			r.states[k] = struct{}{}
		}
		for k := range l.trans {
			r.transitions[k] = struct{}{}
		}
	}
	if l.traces > 0 {
		if r.sums == nil {
			r.sums = map[string]int64{}
		}
		r.sums["traces_validated_against_impl"] += l.traces
		l.traces = 0
	}
	r.mu.Unlock()
	l.evals = 0
	l.distinct = map[uint64]struct{}{}
	l.outcomes = map[uint64]struct{}{}
	l.states, l.trans = nil, nil
}

func (r *Report) Sample(s interface{}) {
	r.mu.Lock()
	if len(r.samples) < 6 {
		r.samples = append(r.samples, s)
	}
	r.mu.Unlock()
}

// Violate records a violation under a finding key. Keys listed in KNOWN_FINDINGS.txt become
// KNOWN-FINDING lines; any other key is a VIOLATION.
func (r *Report) Violate(key, caseStr string, detail interface{}, replay interface{}) {
	r.mu.Lock()
	defer r.mu.Unlock()
	v := &Violation{Key: key, Case: caseStr, Detail: detail, Replay: replay}
	if _, ok := r.knownKeys[key]; ok {
		r.knownCount[key]++
		if r.known[key] == nil {
			r.known[key] = v
		}
		return
	}
	r.violCount[key]++
	if old := r.viol[key]; old == nil || len(caseStr) < len(old.Case) {
		r.viol[key] = v
	}
}

func (r *Report) NotExhaustive(why string) {
	r.mu.Lock()
	r.Exhaustive = false
	r.notExh = append(r.notExh, why)
	r.mu.Unlock()
}

// HarnessError: something is wrong with the machinery (anchor failed, replay diverged). Exit 2.
func (r *Report) HarnessError(msg string) {
	r.mu.Lock()
	r.harnessErr = append(r.harnessErr, msg)
	r.mu.Unlock()
}

func (r *Report) Set(k string, v interface{}) { r.mu.Lock(); r.Extra[k] = v; r.mu.Unlock() }

// State / Transition / Trace: explicit-state accounting for the checks that explore a state machine (distinct states
// and transitions are counted by hash, merged across shard processes; a trace is one complete execution that was run
// on the implementation).
func (r *Report) State(h uint64) {
	r.mu.Lock()
	if r.states == nil {
		r.states = map[uint64]struct{}{}
	}
	r.states[h] = struct{}{}
	r.mu.Unlock()
}

func (r *Report) Transition(h uint64) {
	r.mu.Lock()
	if r.transitions == nil {
		r.transitions = map[uint64]struct{}{}
	}
	r.transitions[h] = struct{}{}
	r.mu.Unlock()
}

func (r *Report) Trace() { r.Add("traces_validated_against_impl", 1) }

// Consistent records a value that every shard process of a check must compute identically (e.g. the hash of its
// ordered case list: shards split the list by index, so differing lists would silently skip or repeat cases); a
// disagreement found while merging is a harness error.
func (r *Report) Consistent(k, v string) {
	r.mu.Lock()
	defer r.mu.Unlock()
	if r.consist == nil {
		r.consist = map[string]string{}
	}
	if old, ok := r.consist[k]; ok && old != v {
		r.harnessErr = append(r.harnessErr, fmt.Sprintf("shards disagree on %s: %s vs %s (nondeterministic case generation)", k, old, v))
	}
	r.consist[k] = v
}

// Add accumulates a count that every shard process contributes to (summed when partial reports are merged, kept
// for non-lead shards too); it ends up in the evidence next to the values of Set.
func (r *Report) Add(k string, n int64) {
	r.mu.Lock()
	if r.sums == nil {
		r.sums = map[string]int64{}
	}
	r.sums[k] += n
	r.mu.Unlock()
}

func (r *Report) Assume(s ...string) {
	r.mu.Lock()
	r.Assumptions = append(r.Assumptions, s...)
	r.mu.Unlock()
}

func (r *Report) Violations() int { r.mu.Lock(); defer r.mu.Unlock(); return len(r.viol) }

func sanitize(s string) string {
	var b strings.Builder
	for _, c := range s {
		if c >= 'a' && c <= 'z' || c >= 'A' && c <= 'Z' || c >= '0' && c <= '9' || c == '-' || c == '_' || c == '.' {
			b.WriteRune(c)
		} else {
			b.WriteByte('_')
		}
	}
	out := b.String()
	if len(out) > 80 {
		out = out[:80]
	}
	return out
}

// Finish writes the evidence file, prints the verdict lines and returns the exit status.
func (r *Report) Finish() int {
	r.mu.Lock()
	defer r.mu.Unlock()
	wall := time.Since(r.start).Seconds()
	if len(r.harnessErr) > 0 {
		for _, e := range r.harnessErr {
			fmt.Printf("HARNESS-ERROR property=%s %s\n", r.ID, e)
		}
		return 2
	}
	os.MkdirAll(filepath.Join(EvidenceDir, "replays"), 0o755)
	keys := make([]string, 0, len(r.viol))
	for k := range r.viol {
		keys = append(keys, k)
	}
	sort.Strings(keys)
	var violList []interface{}
	for _, k := range keys {
		v := r.viol[k]
		path := filepath.Join(EvidenceDir, "replays", r.ID+"-"+sanitize(k)+".json")
		b, _ := json.MarshalIndent(map[string]interface{}{"property": r.ID, "key": k, "case": v.Case,
			"detail": v.Detail, "replay": v.Replay, "occurrences": r.violCount[k]}, "", " ")
		os.WriteFile(path, b, 0o644)
		fmt.Printf("VIOLATION property=%s replay=%s key=%s occurrences=%d case=%s\n", r.ID, path, k, r.violCount[k], trunc(v.Case, 300))
		violList = append(violList, map[string]interface{}{"key": k, "case": trunc(v.Case, 500), "occurrences": r.violCount[k], "detail": v.Detail})
	}
	kkeys := make([]string, 0, len(r.known))
	for k := range r.known {
		kkeys = append(kkeys, k)
	}
	sort.Strings(kkeys)
	var knownList []interface{}
	for _, k := range kkeys {
		fmt.Printf("KNOWN-FINDING: property=%s key=%s %s (occurrences=%d, e.g. %s)\n", r.ID, k, r.knownKeys[k], r.knownCount[k], trunc(r.known[k].Case, 200))
		knownList = append(knownList, map[string]interface{}{"key": k, "occurrences": r.knownCount[k], "example": trunc(r.known[k].Case, 500)})
	}
	cov := map[string]interface{}{}
	for k, v := range r.Extra {
		cov[k] = v
	}
	for k, v := range r.sums {
		cov[k] = v
	}
	if len(r.states) > 0 {
		cov["states"] = len(r.states)
		cov["transitions"] = len(r.transitions)
	}
	cov["evaluations"] = r.evals.Load()
	cov["distinct_nontrivial"] = int64(len(r.distinct)) + r.distinctAdd
	cov["outcomes_distinct"] = len(r.outcomes)
	cov["rule"] = r.Rule
	samples := r.samples
	if len(samples) == 0 {
		samples = []interface{}{"(no sample recorded)"}
	}
	cov["samples"] = samples
	cov["exhaustive"] = r.Exhaustive
	if len(r.notExh) > 0 {
		cov["not_exhaustive_because"] = r.notExh
	}
	if len(violList) > 0 {
		cov["violation_list"] = violList
	}
	if len(knownList) > 0 {
		cov["known_findings_seen"] = knownList
	}
	ev := map[string]interface{}{"property_id": r.ID, "tier": r.Tier, "seed": r.Seed, "level": r.Level,
		"coverage": cov, "assumptions": r.Assumptions, "wall_s": float64(int(wall*1000)) / 1000, "violations": len(r.viol)}
	if r.Assumptions == nil {
		ev["assumptions"] = []string{}
	}
	b, _ := json.MarshalIndent(ev, "", " ")
	if err := os.WriteFile(filepath.Join(EvidenceDir, r.ID+".json"), append(b, '\n'), 0o644); err != nil {
		fmt.Printf("HARNESS-ERROR property=%s cannot write evidence: %v\n", r.ID, err)
		return 2
	}
	fmt.Printf("SUMMARY property=%s tier=%s evaluations=%d distinct_nontrivial=%d outcomes=%d exhaustive=%v violations=%d known=%d wall=%.1fs\n",
		r.ID, r.Tier, r.evals.Load(), int64(len(r.distinct))+r.distinctAdd, len(r.outcomes), r.Exhaustive, len(r.viol), len(r.known), wall)
	if len(r.viol) > 0 {
		return 1
	}
	return 0
}

// Partial is what a shard process hands back to its parent.
type Partial struct {
	Evals       int64
	Distinct    []uint64
	DistinctAdd int64
	Outcomes    []uint64
	Samples     []interface{}
	Viol        map[string]*Violation
	ViolCount   map[string]int
	Known       map[string]*Violation
	KnownCount  map[string]int
	Extra       map[string]interface{}
	NotExh      []string
	HarnessErr  []string
	Rule        string
	Assumptions []string
	Sums        map[string]int64
	Consist     map[string]string
	States      []uint64
	Transitions []uint64
}

func (r *Report) WritePartial(path string) error {
	r.mu.Lock()
	defer r.mu.Unlock()
	if r.DropMeta {
		// a non-lead shard of an isolated check computed the same descriptive fields as the lead shard
		r.Extra, r.samples, r.Rule, r.Assumptions = map[string]interface{}{}, nil, "", nil
	}
	p := Partial{Evals: r.evals.Load(), DistinctAdd: r.distinctAdd, Samples: r.samples, Viol: r.viol, ViolCount: r.violCount,
		Known: r.known, KnownCount: r.knownCount, Extra: r.Extra, NotExh: r.notExh, HarnessErr: r.harnessErr, Rule: r.Rule, Assumptions: r.Assumptions, Sums: r.sums, Consist: r.consist}
	for k := range r.distinct {
		p.Distinct = append(p.Distinct, k)
	}
	for k := range r.outcomes {
		p.Outcomes = append(p.Outcomes, k)
	}
	for k := range r.states {
		p.States = append(p.States, k)
	}
	for k := range r.transitions {
		p.Transitions = append(p.Transitions, k)
	}
	b, err := json.Marshal(p)
	if err != nil {
		return err
	}
	return os.WriteFile(path, b, 0o644)
}

func (r *Report) MergePartial(path string) error {
	b, err := os.ReadFile(path)
	if err != nil {
		return err
	}
	var p Partial
	if err := json.Unmarshal(b, &p); err != nil {
		return err
	}
	r.mu.Lock()
	defer r.mu.Unlock()
	r.evals.Add(p.Evals)
	r.distinctAdd += p.DistinctAdd
	for _, k := range p.Distinct {
		r.distinct[k] = struct{}{}
	}
	for _, k := range p.Outcomes {
		if len(r.outcomes) < 1<<20 {
			r.outcomes[k] = struct{}{}
		}
	}
	for _, s := range p.Samples {
		if len(r.samples) < 6 {
			r.samples = append(r.samples, s)
		}
	}
	for k, v := range p.Viol {
		r.violCount[k] += p.ViolCount[k]
		if old := r.viol[k]; old == nil || len(v.Case) < len(old.Case) {
			r.viol[k] = v
		}
	}
	for k, v := range p.Known {
		r.knownCount[k] += p.KnownCount[k]
		if r.known[k] == nil {
			r.known[k] = v
		}
	}
	for k, v := range p.Extra {
		if f, ok := v.(float64); ok {
			if old, ok2 := r.Extra[k].(float64); ok2 {
				r.Extra[k] = old + f
				continue
			}
		}
		if _, exists := r.Extra[k]; !exists {
			r.Extra[k] = v
		}
	}
	if len(p.NotExh) > 0 {
		r.Exhaustive = false
		r.notExh = append(r.notExh, p.NotExh...)
	}
	r.harnessErr = append(r.harnessErr, p.HarnessErr...)
	for _, k := range p.States {
		if r.states == nil {
			r.states = map[uint64]struct{}{}
		}
		r.states[k] = struct{}{}
	}
	for _, k := range p.Transitions {
		if r.transitions == nil {
			r.transitions = map[uint64]struct{}{}
		}
		r.transitions[k] = struct{}{}
	}
	for k, v := range p.Consist {
		if r.consist == nil {
			r.consist = map[string]string{}
		}
		if old, ok := r.consist[k]; ok && old != v {
			r.harnessErr = append(r.harnessErr, fmt.Sprintf("shards disagree on %s: %s vs %s (nondeterministic case generation)", k, old, v))
		}
		r.consist[k] = v
	}
	for k, v := range p.Sums {
		if r.sums == nil {
			r.sums = map[string]int64{}
		}
		r.sums[k] += v
	}
	if r.Rule == "" {
		r.Rule = p.Rule
	}
	if len(r.Assumptions) == 0 {
		r.Assumptions = p.Assumptions
	}
	return nil
}

func trunc(s string, n int) string {
	if len(s) > n {
		return s[:n] + "…"
	}
	return s
}
