// Package vtime replaces "time" in the emulator's own files (overlay only): Sleep is a no-op, so that the
// closed N2 system runs in milliseconds. The message sequences do not depend on the sleeps because the
// reference AMF is reactive and sequential (DESIGN.md 4.3); this is checked by replaying conversations
// with real sleeps.
package vtime

import "time"

type Duration = time.Duration

const (
	Nanosecond  = time.Nanosecond
	Microsecond = time.Microsecond
	Millisecond = time.Millisecond
	Second      = time.Second
	Minute      = time.Minute
)

func Sleep(d Duration) {}
