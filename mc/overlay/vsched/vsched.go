// Package vsched is the cooperative scheduler of the C20 check (present only through the build overlay, as
// free5gclib/vsched). One thread (goroutine) runs at a time; Yield, the scheduler-aware mutex of vsync, thread
// start and thread end are the scheduling points. The explorer decides at every point which enabled thread runs.
package vsched

import (
	"fmt"
	"strings"
)

type thread struct {
	id      int
	resume  chan struct{}
	done    bool
	blocked interface{} // non-nil: waiting for this lock
	label   string
	seen    map[string]int // dynamic instances of each statement-level yield site met so far
}

// MaxPerSite bounds the scheduling points of one thread: only the first MaxPerSite dynamic instances of each
// statement-level yield site (label "<pkg>.<func>#<n>") are scheduling points, later instances run through
// (0 = no bound). Lock operations and thread start/end are always scheduling points.
var MaxPerSite = 0

// MaxPerFn bounds the coarse function-entry scheduling points (label "fn:<pkg>.<func>") in the same way;
// 0 switches them off altogether.
var MaxPerFn = 0

type Point struct {
	Enabled []int // canonical order: the running thread first if it is still enabled, then ascending ids
	Running int   // thread that ran up to this point (-1 at the start)
	Label   string
}

type Sched struct {
	threads []*thread
	cur     *thread
	parked  chan *thread
	choose  func(p Point) int // returns an index into p.Enabled
	Trace   []int             // thread ids in the order they were scheduled at each point
	Points  int
	panicv  interface{}
}

var active *Sched

// Yield is a scheduling point. Outside a scheduled run it does nothing.
func Yield(label string) {
	s := active
	if s == nil || s.cur == nil {
		return
	}
	t := s.cur
	if strings.HasPrefix(label, "fn:") {
		if MaxPerFn == 0 {
			return
		}
		if t.seen == nil {
			t.seen = map[string]int{}
		}
		t.seen[label]++
		if t.seen[label] > MaxPerFn {
			return
		}
	} else if MaxPerSite > 0 && strings.Contains(label, "#") {
		if t.seen == nil {
			t.seen = map[string]int{}
		}
		t.seen[label]++
		if t.seen[label] > MaxPerSite {
			return
		}
	}
	t.label = label
	s.parked <- t
	<-t.resume
}

// Block parks the running thread until Unblock(lock) (used by vsync).
func Block(lock interface{}) {
	s := active
	if s == nil || s.cur == nil {
		panic("vsched: blocking lock operation outside a scheduled run while the lock is held")
	}
	t := s.cur
	t.blocked = lock
	t.label = "lock"
	s.parked <- t
	<-t.resume
}

func Unblock(lock interface{}) {
	s := active
	if s == nil {
		return
	}
	for _, t := range s.threads {
		if t.blocked == lock {
			t.blocked = nil
		}
	}
}

type Deadlock struct{ Waiting []int }

func (d Deadlock) Error() string {
	return fmt.Sprintf("deadlock: threads %v wait for locks nobody will release", d.Waiting)
}

// Run executes bodies under the scheduler; choose picks the next thread at every point. It returns a Deadlock
// error when unfinished threads are all blocked. A panic inside a thread is re-raised in the caller.
func Run(bodies []func(), choose func(p Point) int) (s *Sched, err error) {
	s = &Sched{parked: make(chan *thread), choose: choose}
	if active != nil {
		panic("vsched: nested Run")
	}
	active = s
	defer func() { active = nil }()
	for i, b := range bodies {
		t := &thread{id: i, resume: make(chan struct{})}
		s.threads = append(s.threads, t)
		b := b
		go func() {
			<-t.resume
			defer func() {
				if p := recover(); p != nil {
					s.panicv = p
				}
				t.done = true
				s.parked <- t
			}()
			b()
		}()
	}
	running := -1
	for {
		var enabled []int
		if running >= 0 && !s.threads[running].done && s.threads[running].blocked == nil {
			enabled = append(enabled, running)
		}
		var waiting []int
		for _, t := range s.threads {
			if t.done || t.id == running {
				continue
			}
			if t.blocked != nil {
				waiting = append(waiting, t.id)
				continue
			}
			enabled = append(enabled, t.id)
		}
		if running >= 0 && !s.threads[running].done && s.threads[running].blocked != nil {
			waiting = append(waiting, running)
		}
		if len(enabled) == 0 {
			if len(waiting) > 0 {
				return s, Deadlock{waiting}
			}
			break
		}
		label := ""
		if running >= 0 {
			label = s.threads[running].label
		}
		idx := 0
		if len(enabled) > 1 {
			idx = choose(Point{Enabled: enabled, Running: running, Label: label})
			s.Points++
		}
		next := s.threads[enabled[idx]]
		s.Trace = append(s.Trace, next.id)
		s.cur = next
		running = next.id
		next.resume <- struct{}{}
		<-s.parked
		s.cur = nil
		if s.panicv != nil {
			p := s.panicv
			// let the remaining threads go (they are parked on resume forever; the goroutines are abandoned)
			panic(p)
		}
	}
	return s, nil
}
