// Package vsync replaces "sync" in the instrumented packages (overlay only): Mutex/RWMutex/Once that hand
// control to the cooperative scheduler instead of blocking the only running goroutine.
package vsync

import (
	"sync"

	"free5gclib/vsched"
)

type Mutex struct {
	locked bool
}

func (m *Mutex) Lock() {
	vsched.Yield("Mutex.Lock")
	for m.locked {
		vsched.Block(m)
	}
	m.locked = true
}

func (m *Mutex) Unlock() {
	m.locked = false
	vsched.Unblock(m)
	vsched.Yield("Mutex.Unlock")
}

type RWMutex struct {
	w       bool
	readers int
}

func (m *RWMutex) Lock() {
	vsched.Yield("RWMutex.Lock")
	for m.w || m.readers > 0 {
		vsched.Block(m)
	}
	m.w = true
}
func (m *RWMutex) Unlock() { m.w = false; vsched.Unblock(m); vsched.Yield("RWMutex.Unlock") }
func (m *RWMutex) RLock() {
	vsched.Yield("RWMutex.RLock")
	for m.w {
		vsched.Block(m)
	}
	m.readers++
}
func (m *RWMutex) RUnlock() { m.readers--; vsched.Unblock(m); vsched.Yield("RWMutex.RUnlock") }

type Once struct {
	m    Mutex
	done bool
}

func (o *Once) Do(f func()) {
	o.m.Lock()
	defer o.m.Unlock()
	if !o.done {
		o.done = true
		f()
	}
}

// WaitGroup, Pool and Map keep their standard behaviour (not used for mutual exclusion in the instrumented code).
type WaitGroup = sync.WaitGroup

// Pool: sync.Pool may hand any object that was Put to any later Get; the real one keeps per-P caches, so under the
// cooperative scheduler two threads would rarely see each other's objects. This one is a single LIFO shared by all
// threads - the most sharing sync.Pool's contract allows - with scheduling points at Get and Put.
type Pool struct {
	New   func() interface{}
	items []interface{}
}

func (p *Pool) Get() interface{} {
	vsched.Yield("Pool.Get")
	if n := len(p.items); n > 0 {
		x := p.items[n-1]
		p.items = p.items[:n-1]
		return x
	}
	if p.New != nil {
		return p.New()
	}
	return nil
}

func (p *Pool) Put(x interface{}) {
	p.items = append(p.items, x)
	vsched.Yield("Pool.Put")
}

type Map = sync.Map
