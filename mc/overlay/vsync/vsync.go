// Package vsync replaces "sync" in the instrumented packages (overlay only): Mutex/RWMutex/Once that hand
// control to the cooperative scheduler instead of blocking the only running goroutine.
package vsync

import (
	"sync"

	"free5gclib/vsched"
)

type Mutex struct {
	locked bool
}

func (m *Mutex) Lock() {
	vsched.Yield("Mutex.Lock")
	for m.locked {
		vsched.Block(m)
	}
	m.locked = true
}

func (m *Mutex) Unlock() {
	m.locked = false
	vsched.Unblock(m)
	vsched.Yield("Mutex.Unlock")
}

type RWMutex struct {
	w       bool
	readers int
}

func (m *RWMutex) Lock() {
	vsched.Yield("RWMutex.Lock")
	for m.w || m.readers > 0 {
		vsched.Block(m)
	}
	m.w = true
}
func (m *RWMutex) Unlock() { m.w = false; vsched.Unblock(m); vsched.Yield("RWMutex.Unlock") }
func (m *RWMutex) RLock() {
	vsched.Yield("RWMutex.RLock")
	for m.w {
		vsched.Block(m)
	}
	m.readers++
}
func (m *RWMutex) RUnlock() { m.readers--; vsched.Unblock(m); vsched.Yield("RWMutex.RUnlock") }

type Once struct {
	m    Mutex
	done bool
}

func (o *Once) Do(f func()) {
	o.m.Lock()
	defer o.m.Unlock()
	if !o.done {
		o.done = true
		f()
	}
}

// WaitGroup, Pool and Map keep their standard behaviour (not used for mutual exclusion in the instrumented code).
type WaitGroup = sync.WaitGroup
type Pool = sync.Pool
type Map = sync.Map
