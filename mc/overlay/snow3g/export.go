package snow3g

// Overlay-only file (never written into /repo): read-only access to the unexported tables for C07.

func VerifSR(i byte) byte         { return sr[i] }
func VerifSQ(i byte) byte         { return sq[i] }
func VerifMulAlpha(c byte) uint32 { return mulAlpha(c) }
func VerifDivAlpha(c byte) uint32 { return divAlpha(c) }
