package refcrypto

// Milenage (TS 35.206) with the default constants r1..r5, c1..c5.

func xor16(a, b []byte) []byte {
	o := make([]byte, 16)
	for i := range o {
		o[i] = a[i] ^ b[i]
	}
	return o
}

func rotl(b []byte, bits int) []byte { // cyclic left rotation of a 128-bit value by a multiple of 8 bits
	n := bits / 8
	o := make([]byte, 16)
	for i := 0; i < 16; i++ {
		o[i] = b[(i+n)%16]
	}
	return o
}

func OPc(k, op []byte) []byte { return xor16(aesEnc(k, op), op) }

type MilenageOut struct {
	MACA, MACS   []byte // 8
	RES          []byte // 8
	CK, IK       []byte // 16
	AK, AKStar   []byte // 6
}

// Milenage computes all functions from K, OPc, RAND, SQN (6 octets), AMF (2 octets).
func Milenage(k, opc, rand, sqn, amf []byte) MilenageOut {
	temp := aesEnc(k, xor16(rand, opc))
	in1 := make([]byte, 16)
	copy(in1[0:6], sqn)
	copy(in1[6:8], amf)
	copy(in1[8:14], sqn)
	copy(in1[14:16], amf)
	c := func(last byte) []byte { o := make([]byte, 16); o[15] = last; return o }
	// f1/f1*: OUT1 = E[TEMP xor rot(IN1 xor OPc, r1) xor c1] xor OPc, r1=64, c1=0
	out1 := xor16(aesEnc(k, xor16(xor16(temp, rotl(xor16(in1, opc), 64)), c(0))), opc)
	outn := func(r int, cc byte) []byte {
		return xor16(aesEnc(k, xor16(rotl(xor16(temp, opc), r), c(cc))), opc)
	}
	out2 := outn(0, 1)
	out3 := outn(32, 2)
	out4 := outn(64, 4)
	out5 := outn(96, 8)
	return MilenageOut{MACA: out1[0:8], MACS: out1[8:16], RES: out2[8:16], AK: out2[0:6], CK: out3, IK: out4, AKStar: out5[0:6]}
}

// AUTN = (SQN xor AK) || AMF || MAC-A
func AUTN(k, opc, rand, sqn, amf []byte) []byte {
	m := Milenage(k, opc, rand, sqn, amf)
	a := make([]byte, 16)
	for i := 0; i < 6; i++ {
		a[i] = sqn[i] ^ m.AK[i]
	}
	copy(a[6:8], amf)
	copy(a[8:], m.MACA)
	return a
}

// Derive5G computes RES*, K_AUSF, K_SEAF, K_AMF, and the algorithm keys (TS 33.501 Annex A).
type Keys5G struct {
	ResStar, Kausf, Kseaf, Kamf []byte
	KnasEnc, KnasInt            [16]byte
}

func SNName(mcc, mnc string) string {
	if len(mnc) == 2 {
		mnc = "0" + mnc
	}
	return "5G:mnc" + mnc + ".mcc" + mcc + ".3gppnetwork.org"
}

func Derive5G(k, opc, rand, sqnXorAK []byte, mcc, mnc, supiDigits string, encAlg, intAlg byte) Keys5G {
	// f2-f5 do not depend on SQN/AMF
	m := Milenage(k, opc, rand, make([]byte, 6), make([]byte, 2))
	sn := []byte(SNName(mcc, mnc))
	ckik := append(append([]byte{}, m.CK...), m.IK...)
	var out Keys5G
	out.ResStar = KDF(ckik, 0x6b, sn, rand, m.RES)[16:]
	out.Kausf = KDF(ckik, 0x6a, sn, sqnXorAK)
	out.Kseaf = KDF(out.Kausf, 0x6c, sn)
	out.Kamf = KDF(out.Kseaf, 0x6d, []byte(supiDigits), []byte{0, 0})
	copy(out.KnasEnc[:], KDF(out.Kamf, 0x69, []byte{0x01}, []byte{encAlg})[16:])
	copy(out.KnasInt[:], KDF(out.Kamf, 0x69, []byte{0x02}, []byte{intAlg})[16:])
	return out
}
