// Package refcrypto: independent reference implementations written from the 3GPP specifications
// (TS 35.206, 35.215, 35.216, 33.401 Annex B, 33.501 Annex A, 33.220 B.2, RFC 4493).
// It imports nothing from /repo.
package refcrypto

// ---- SNOW 3G (TS 35.216) with computed tables ----

var SR, SQ [256]byte
var mulAlphaT, divAlphaT [256]uint32

func gmul(a, b byte, poly uint16) byte { // multiplication in GF(2^8) modulo poly (9 bits)
	var r uint16
	aa := uint16(a)
	for i := 0; i < 8; i++ {
		if b&(1<<uint(i)) != 0 {
			r ^= aa << uint(i)
		}
	}
	for i := 15; i >= 8; i-- {
		if r&(1<<uint(i)) != 0 {
			r ^= poly << uint(i-8)
		}
	}
	return byte(r)
}

func gpow(a byte, e int, poly uint16) byte {
	r := byte(1)
	for i := 0; i < e; i++ {
		r = gmul(r, a, poly)
	}
	return r
}

func init() {
	// S_R: Rijndael S-box = affine(inverse(x)) over x^8+x^4+x^3+x+1
	for x := 0; x < 256; x++ {
		inv := byte(0)
		if x != 0 {
			inv = gpow(byte(x), 254, 0x11b)
		}
		var y byte
		for i := uint(0); i < 8; i++ {
			b := (inv>>i)&1 ^ (inv>>((i+4)%8))&1 ^ (inv>>((i+5)%8))&1 ^ (inv>>((i+6)%8))&1 ^ (inv>>((i+7)%8))&1 ^ (0x63>>i)&1
			y |= b << i
		}
		SR[x] = y
	}
	// S_Q: Dickson polynomial g49 over x^8+x^6+x^5+x^3+1, plus 0x25
	for x := 0; x < 256; x++ {
		var y byte
		for _, e := range []int{1, 9, 13, 15, 33, 41, 45, 47, 49} {
			y ^= gpow(byte(x), e, 0x169)
		}
		SQ[x] = y ^ 0x25
	}
	// MULalpha / DIValpha: alpha is a root of x^4 + b^23 x^3 + b^245 x^2 + b^48 x + b^239 where b is a
	// root of x^8+x^7+x^5+x^3+1 (0x1a9): MULxPOW(c,i,0xa9) = c * b^i.
	for c := 0; c < 256; c++ {
		m := func(e int) uint32 { return uint32(gmul(byte(c), gpow(2, e, 0x1a9), 0x1a9)) }
		mulAlphaT[c] = m(23)<<24 | m(245)<<16 | m(48)<<8 | m(239)
		divAlphaT[c] = m(16)<<24 | m(39)<<16 | m(6)<<8 | m(64)
	}
}

func MulAlpha(c byte) uint32 { return mulAlphaT[c] }
func DivAlpha(c byte) uint32 { return divAlphaT[c] }

type Snow3G struct {
	s          [16]uint32
	r1, r2, r3 uint32
}

func sbox32(w uint32, t *[256]byte, poly uint16) uint32 {
	b0, b1, b2, b3 := t[w>>24], t[(w>>16)&0xff], t[(w>>8)&0xff], t[w&0xff]
	x2 := func(v byte) byte { return gmul(v, 2, poly) }
	x3 := func(v byte) byte { return gmul(v, 3, poly) }
	// MixColumn-style matrix [2 1 1 3; 3 2 1 1; 1 3 2 1; 1 1 3 2]
	r0 := x2(b0) ^ b1 ^ b2 ^ x3(b3)
	r1 := x3(b0) ^ x2(b1) ^ b2 ^ b3
	r2 := b0 ^ x3(b1) ^ x2(b2) ^ b3
	r3 := b0 ^ b1 ^ x3(b2) ^ x2(b3)
	return uint32(r0)<<24 | uint32(r1)<<16 | uint32(r2)<<8 | uint32(r3)
}

func S1(w uint32) uint32 { return sbox32(w, &SR, 0x11b) }
func S2(w uint32) uint32 { return sbox32(w, &SQ, 0x169) }

func (g *Snow3G) clockFSM() uint32 {
	f := (g.s[15] + g.r1) ^ g.r2
	r := g.r2 + (g.r3 ^ g.s[5])
	g.r3 = S2(g.r2)
	g.r2 = S1(g.r1)
	g.r1 = r
	return f
}

func (g *Snow3G) clockLFSR(f uint32) {
	v := (g.s[0] << 8) ^ mulAlphaT[g.s[0]>>24] ^ g.s[2] ^ (g.s[11] >> 8) ^ divAlphaT[g.s[11]&0xff] ^ f
	copy(g.s[:15], g.s[1:])
	g.s[15] = v
}

// NewSnow3G initialises with key words k[0..3] and IV words iv[0..3] (spec indices).
func NewSnow3G(k, iv [4]uint32) *Snow3G {
	g := &Snow3G{}
	ones := uint32(0xffffffff)
	g.s[15] = k[3] ^ iv[0]
	g.s[14] = k[2]
	g.s[13] = k[1]
	g.s[12] = k[0] ^ iv[1]
	g.s[11] = k[3] ^ ones
	g.s[10] = k[2] ^ ones ^ iv[2]
	g.s[9] = k[1] ^ ones ^ iv[3]
	g.s[8] = k[0] ^ ones
	g.s[7] = k[3]
	g.s[6] = k[2]
	g.s[5] = k[1]
	g.s[4] = k[0]
	g.s[3] = k[3] ^ ones
	g.s[2] = k[2] ^ ones
	g.s[1] = k[1] ^ ones
	g.s[0] = k[0] ^ ones
	for i := 0; i < 32; i++ {
		f := g.clockFSM()
		g.clockLFSR(f)
	}
	g.clockFSM()
	g.clockLFSR(0)
	return g
}

func (g *Snow3G) Next() uint32 {
	f := g.clockFSM()
	z := f ^ g.s[0]
	g.clockLFSR(0)
	return z
}

func be32(b []byte) uint32 { return uint32(b[0])<<24 | uint32(b[1])<<16 | uint32(b[2])<<8 | uint32(b[3]) }

func keyWords(key [16]byte) [4]uint32 {
	// K3 = key[0..3], K2 = key[4..7], K1 = key[8..11], K0 = key[12..15]
	return [4]uint32{be32(key[12:]), be32(key[8:]), be32(key[4:]), be32(key[0:])}
}

// EEA1Keystream returns n octets of 128-EEA1 (UEA2 f8) keystream.
func EEA1Keystream(key [16]byte, count uint32, bearer, dir uint32, n int) []byte {
	iv2 := bearer<<27 | dir<<26
	g := NewSnow3G(keyWords(key), [4]uint32{iv2, count, iv2, count})
	out := make([]byte, 0, n+4)
	for len(out) < n {
		z := g.Next()
		out = append(out, byte(z>>24), byte(z>>16), byte(z>>8), byte(z))
	}
	return out[:n]
}

// gf64mul multiplies in GF(2^64) modulo x^64+x^4+x^3+x+1 (shift-and-add over the first operand).
func gf64mul(a, b uint64) uint64 {
	var r uint64
	for i := 63; i >= 0; i-- {
		// r = r*x
		hi := r >> 63
		r <<= 1
		if hi != 0 {
			r ^= 0x1b
		}
		if (b>>uint(i))&1 != 0 {
			r ^= a
		}
	}
	return r
}

// EIA1 returns the 128-EIA1 (UIA2 f9 with FRESH = BEARER<<27) MAC over msg (whole octets).
func EIA1(key [16]byte, count uint32, bearer, dir uint32, msg []byte) [4]byte {
	fresh := bearer << 27
	g := NewSnow3G(keyWords(key), [4]uint32{fresh ^ (dir << 15), count ^ (dir << 31), fresh, count})
	var z [5]uint32
	for i := range z {
		z[i] = g.Next()
	}
	p := uint64(z[0])<<32 | uint64(z[1])
	q := uint64(z[2])<<32 | uint64(z[3])
	length := uint64(len(msg)) * 8
	var eval uint64
	nblocks := (len(msg) + 7) / 8
	for i := 0; i < nblocks; i++ {
		var m uint64
		for j := 0; j < 8; j++ {
			m <<= 8
			if 8*i+j < len(msg) {
				m |= uint64(msg[8*i+j])
			}
		}
		eval = gf64mul(eval^m, p)
	}
	eval ^= length
	eval = gf64mul(eval, q)
	mac := uint32(eval>>32) ^ z[4]
	return [4]byte{byte(mac >> 24), byte(mac >> 16), byte(mac >> 8), byte(mac)}
}
