package refcrypto

import (
	"bytes"
	"encoding/hex"
	"fmt"
)

func hx(s string) []byte {
	b, err := hex.DecodeString(s)
	if err != nil {
		panic(err)
	}
	return b
}

func arr16(b []byte) (a [16]byte) { copy(a[:], b); return }

// SelfTest checks the reference against published anchors. A failure is a harness error.
func SelfTest() error {
	chk := func(name string, got []byte, want string) error {
		if !bytes.Equal(got, hx(want)) {
			return fmt.Errorf("refcrypto anchor %s: got %x want %s", name, got, want)
		}
		return nil
	}
	var errs []error
	add := func(e error) {
		if e != nil {
			errs = append(errs, e)
		}
	}
	// TS 35.207 test set 1
	k, rand, sqn, amf, op := hx("465b5ce8b199b49faa5f0a2ee238a6bc"), hx("23553cbe9637a89d218ae64dae47bf35"), hx("ff9bb4d0b607"), hx("b9b9"), hx("cdc202d5123e20f62b6d676ac72cb318")
	opc := OPc(k, op)
	add(chk("35.207-1 OPc", opc, "cd63cb71954a9f4e48a5994e37a02baf"))
	m := Milenage(k, opc, rand, sqn, amf)
	add(chk("f1", m.MACA, "4a9ffac354dfafb3"))
	add(chk("f1*", m.MACS, "01cfaf9ec4e871e9"))
	add(chk("f2", m.RES, "a54211d5e3ba50bf"))
	add(chk("f3", m.CK, "b40ba9a3c58b2a05bbf0d987b21bf8cb"))
	add(chk("f4", m.IK, "f769bcd751044604127672711c6d3441"))
	add(chk("f5", m.AK, "aa689c648370"))
	add(chk("f5*", m.AKStar, "451e8beca43b"))
	// RFC 4493
	ck := hx("2b7e151628aed2a6abf7158809cf4f3c")
	add(chk("cmac-empty", CMAC(ck, nil), "bb1d6929e95937287fa37d129b756746"))
	add(chk("cmac-16", CMAC(ck, hx("6bc1bee22e409f96e93d7e117393172a")), "070a16b46b4d4144f79bdd9dd04a287c"))
	add(chk("cmac-40", CMAC(ck, hx("6bc1bee22e409f96e93d7e117393172aae2d8a571e03ac9c9eb76fac45af8e5130c81c46a35ce411")), "dfa66747de9ae63030ca32611497c827"))
	// TS 33.401 C.1 128-EEA2 test set 1
	pt := hx("981ba6824c1bfb1ab485472029b71d808ce33e2cc3c0b5fc1f3de8a6dc66b1f0")
	ks := EEA2Keystream(arr16(hx("d3c5d592327fb11c4035c6680af8c6d1")), 0x398a59b4, 0x15, 1, 32)
	ct := make([]byte, 32)
	for i := range ct {
		ct[i] = pt[i] ^ ks[i]
	}
	ct[31] &= 0xf8 // length 253 bits
	add(chk("eea2-1", ct, "e9fed8a63d155304d71df20bf3e82214b20ed7dad2f233dc3c22d7bdeeed8e78"))
	// SNOW 3G test set 1 (TS 35.222? implementors' test data): key/IV in printed order
	g := NewSnow3G([4]uint32{0x2bd6459f, 0x82c5b300, 0x952c4910, 0x4881ff48}, [4]uint32{0xea024714, 0xad5c4d84, 0xdf1f9b25, 0x1c0bf45f})
	z1, z2 := g.Next(), g.Next()
	if z1 != 0xabee9704 || z2 != 0x7ac31373 {
		// printed order may be k3..k0 / iv3..iv0
		g = NewSnow3G([4]uint32{0x4881ff48, 0x952c4910, 0x82c5b300, 0x2bd6459f}, [4]uint32{0x1c0bf45f, 0xdf1f9b25, 0xad5c4d84, 0xea024714})
		z1, z2 = g.Next(), g.Next()
		if z1 != 0xabee9704 || z2 != 0x7ac31373 {
			errs = append(errs, fmt.Errorf("snow3g set 1: got %08x %08x", z1, z2))
		}
	}
	// UEA2 test set 1, first octets
	ks = EEA1Keystream(arr16(hx("2bd6459f82c5b300952c49104881ff48")), 0x72a4f20f, 0x0c, 1, 9)
	ptu := hx("7ec61272743bf16147")
	for i := range ks {
		ks[i] ^= ptu[i]
	}
	add(chk("uea2-1", ks, "8ceba62943dced3a09"))
	if len(errs) > 0 {
		return fmt.Errorf("%v", errs)
	}
	return nil
}
