package refcrypto

import (
	"crypto/aes"
	"crypto/hmac"
	"crypto/sha256"
)

func aesEnc(key []byte, in []byte) []byte {
	c, err := aes.NewCipher(key)
	if err != nil {
		panic(err)
	}
	out := make([]byte, 16)
	c.Encrypt(out, in)
	return out
}

// EEA2Keystream: AES-128 CTR keystream with T1 = COUNT | BEARER | DIR | 0^26 | 0^64, written out by hand.
func EEA2Keystream(key [16]byte, count uint32, bearer, dir uint32, n int) []byte {
	var ctr [16]byte
	ctr[0], ctr[1], ctr[2], ctr[3] = byte(count>>24), byte(count>>16), byte(count>>8), byte(count)
	ctr[4] = byte(bearer<<3 | dir<<2)
	out := make([]byte, 0, n+16)
	for len(out) < n {
		out = append(out, aesEnc(key[:], ctr[:])...)
		for i := 15; i >= 0; i-- { // 128-bit big-endian increment
			ctr[i]++
			if ctr[i] != 0 {
				break
			}
		}
	}
	return out[:n]
}

func dbl(b []byte) []byte {
	out := make([]byte, 16)
	carry := b[0] >> 7
	for i := 0; i < 16; i++ {
		out[i] = b[i] << 1
		if i < 15 {
			out[i] |= b[i+1] >> 7
		}
	}
	if carry != 0 {
		out[15] ^= 0x87
	}
	return out
}

// CMAC: AES-CMAC (RFC 4493), full 16 octets.
func CMAC(key []byte, msg []byte) []byte {
	l := aesEnc(key, make([]byte, 16))
	k1 := dbl(l)
	k2 := dbl(k1)
	n := (len(msg) + 15) / 16
	complete := n > 0 && len(msg)%16 == 0
	if n == 0 {
		n = 1
	}
	last := make([]byte, 16)
	if complete {
		copy(last, msg[16*(n-1):])
		for i := range last {
			last[i] ^= k1[i]
		}
	} else {
		rem := msg[16*(n-1):]
		copy(last, rem)
		last[len(rem)] = 0x80
		for i := range last {
			last[i] ^= k2[i]
		}
	}
	x := make([]byte, 16)
	for i := 0; i < n-1; i++ {
		for j := 0; j < 16; j++ {
			x[j] ^= msg[16*i+j]
		}
		x = aesEnc(key, x)
	}
	for j := 0; j < 16; j++ {
		x[j] ^= last[j]
	}
	return aesEnc(key, x)
}

// EIA2: CMAC over COUNT | BEARER | DIR | 0^26 | MESSAGE, first 32 bits.
func EIA2(key [16]byte, count uint32, bearer, dir uint32, msg []byte) [4]byte {
	m := make([]byte, 8+len(msg))
	m[0], m[1], m[2], m[3] = byte(count>>24), byte(count>>16), byte(count>>8), byte(count)
	m[4] = byte(bearer<<3 | dir<<2)
	copy(m[8:], msg)
	t := CMAC(key[:], m)
	return [4]byte{t[0], t[1], t[2], t[3]}
}

// NEAKeystream returns the keystream of 128-NEA<alg> (alg 0 = all zero).
func NEAKeystream(alg int, key [16]byte, count uint32, bearer, dir uint32, n int) []byte {
	switch alg {
	case 0:
		return make([]byte, n)
	case 1:
		return EEA1Keystream(key, count, bearer, dir, n)
	case 2:
		return EEA2Keystream(key, count, bearer, dir, n)
	}
	panic("refcrypto: unsupported NEA")
}

func NIA(alg int, key [16]byte, count uint32, bearer, dir uint32, msg []byte) [4]byte {
	switch alg {
	case 1:
		return EIA1(key, count, bearer, dir, msg)
	case 2:
		return EIA2(key, count, bearer, dir, msg)
	}
	panic("refcrypto: unsupported NIA")
}

// KDF: TS 33.220 B.2: HMAC-SHA-256(key, FC || P0 || L0 || P1 || L1 ...).
func KDF(key []byte, fc byte, params ...[]byte) []byte {
	s := []byte{fc}
	for _, p := range params {
		s = append(s, p...)
		s = append(s, byte(len(p)>>8), byte(len(p)))
	}
	h := hmac.New(sha256.New, key)
	h.Write(s)
	return h.Sum(nil)
}
