#!/usr/bin/env python3
"""Writes /verif/seeded/INDEX.md: one line per recorded seeded change (what it is, which checks were run, whether it
was caught at once or only after a strengthening)."""
import json, os, re, glob
rows = []
def key(d):
    m = re.match(r'C(\d+)-(\d+)', d); return (int(m.group(1)), int(m.group(2)))
for d in sorted([x for x in os.listdir('/verif/seeded') if re.match(r'C\d+-\d+$', x)], key=key):
    p = '/verif/seeded/' + d
    try: m = json.load(open(p + '/meta.json'))
    except Exception: continue
    title = ''
    if os.path.exists(p + '/README.md'):
        for l in open(p + '/README.md'):
            l = l.strip()
            if l.startswith('#'):
                title = re.sub(r'^#+\s*', '', l)
                title = re.sub(r'^(C\d+\s*(/|-|—|–)?\s*)?(seeded\s+)?change\s*\d*\s*[:—–-]*\s*', '', title, flags=re.I).strip()
                break
    checks = m.get('checks_run') or {m['property']: m.get('check_exit_with_change', 1)}
    caught = ', '.join(k for k, v in checks.items() if v == 1) or '-'
    also = open(p + '/also.txt').read().split() if os.path.exists(p + '/also.txt') else []
    for a in also:
        if a not in caught: caught += ', ' + a
    note = m.get('strengthening', '') if m.get('first_missed') else ''
    if m.get('out_of_scope'): note = 'NOT CLAIMED: ' + m['out_of_scope']
    if m.get('rebased'): note = (note + ' ' if note else '') + '(patch re-based over a later fix)'
    rows.append((d, m.get('round', 1), title[:150], caught, note))
with open('/verif/seeded/INDEX.md', 'w') as f:
    f.write('# Seeded changes (independent sub-agents, property text only)\n\n')
    f.write('Every change compiles, passes the 93 tests, fails its own demonstration and passes it without the change (meta.json).\n')
    f.write('"after" = the check first missed the change and was strengthened (what was done).\n\n')
    f.write('| seed | round | change | caught by | after |\n|---|---|---|---|---|\n')
    for r in rows:
        f.write('| %s | %s | %s | %s | %s |\n' % tuple(str(x).replace('|', '/').replace('\n', ' ') for x in r))
    n = len(rows); miss = sum(1 for r in rows if r[4] and 'first missed' in r[4] or (r[4] and 'crashed' in r[4]) or (r[4] and 'hung' in r[4]))
    f.write('\n%d changes recorded; %d of them were first missed (or broke the check) and led to a strengthening.\n' % (n, miss))
print(len(rows), 'rows')
