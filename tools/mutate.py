#!/usr/bin/env python3
"""mutate.py list <repo> <n-per-file> <seed>      -> prints a JSON list of mutants (file, line, operator, before, after)
   mutate.py apply <repo> <json-of-one-mutant>   -> rewrites that line in <repo>

A mechanical mutation campaign over the hand-written (non-generated) files the properties are anchored in: one
token-level change per mutant (relational / boolean / shift / bitwise operator swapped, an integer literal or a +-1
offset changed).  Complements the seeded changes written by sub-agents: those are plausible and subtle, these are
many and unbiased.  The runner (mutrun.sh) keeps a mutant only if the tree still builds and the pinned suite passes,
then runs the checks that own the file; a surviving mutant is either equivalent / outside every property or a gap."""
import json, random, re, sys, os

# file -> checks that own it (fastest first)
OWNERS = {
 'src/free5gclib/aper/marshal.go': ['C03', 'C04', 'C13'],
 'src/free5gclib/aper/aper.go': ['C04', 'C14', 'C03'],
 'src/free5gclib/nas/security/security.go': ['C07', 'C10', 'C06'],
 'src/free5gclib/nas/security/counter.go': ['C10', 'C06'],
 'src/free5gclib/nas/security/snow3g/snow3g.go': ['C07'],
 'src/tglib/security.go': ['C10', 'C06'],
 'src/tglib/ranUe.go': ['C05', 'C16', 'C01'],
 'src/tglib/decode.go': ['C10'],
 'src/tglib/packet.go': ['C13', 'C01'],
 'src/tglib/ngapTestpacket/build.go': ['C13', 'C01'],
 'src/free5gclib/UeauCommon/UeauCommon.go': ['C05'],
 'src/free5gclib/milenage/milenage.go': ['C15', 'C05'],
 'src/stgutg/ue.go': ['C16', 'C11', 'C01', 'C02', 'C19'],
 'src/stgutg/pdu.go': ['C12', 'C02', 'C19'],
 'src/stgutg/service.go': ['C02', 'C19'],
 'src/stgutg/ngsetup.go': ['C01', 'C19', 'C18'],
 'src/stgutg/utils.go': ['C11', 'C18', 'C01', 'C19'],
 'stg-utg.go': ['C18', 'C02'],
 'src/free5gclib/nas/nasConvert/PlmnId.go': ['C17', 'C11'],
 'src/free5gclib/nas/nasConvert/Snssai.go': ['C17'],
 'src/free5gclib/nas/nasConvert/AmfId.go': ['C17'],
 'src/free5gclib/nas/nasConvert/ProtocolConfigurationOptions.go': ['C17'],
 'src/free5gclib/ngap/ngapConvert/IpAddress.go': ['C17', 'C13'],
 'src/free5gclib/nas/nas.go': ['C08', 'C09', 'C10', 'C06'],
 'src/free5gclib/nas/nasTestpacket/NasPdu.go': ['C09', 'C02', 'C01'],
}

OPS = [
 (r'<=', '<'), (r'>=', '>'), (r'(?<![<>=!-])<(?![<=-])', '<='), (r'(?<![<>=!-])>(?![>=])', '>='),
 (r'==', '!='), (r'!=', '=='), (r'&&', '||'), (r'\|\|', '&&'),
 (r'<<', '>>'), (r'>>', '<<'),
 (r'\+ 1\b', '+ 2'), (r'- 1\b', '- 2'), (r'\+1\b', '+2'), (r'-1\b', '-2'),
 (r'(?<![&])&(?![&^=])', '|'), (r'(?<![|])\|(?![|=])', '&'),
]
LIT = re.compile(r'(?<![\w.])(0x[0-9a-fA-F]+|\d+)(?![\w.])')

def code_part(line):
    """the part of the line before a // comment, with string literals blanked"""
    out, i, n = [], 0, len(line)
    while i < n:
        c = line[i]
        if c == '/' and i + 1 < n and line[i + 1] == '/':
            break
        if c in '"`\'':
            q = c; j = i + 1
            while j < n and line[j] != q:
                j += 2 if line[j] == '\\' and q != '`' else 1
            out.append(' ' * (min(j, n - 1) - i + 1)); i = j + 1; continue
        out.append(c); i += 1
    return ''.join(out)

def candidates(path):
    res = []
    infunc = False
    inblock = False
    for ln, line in enumerate(open(path).read().split('\n'), 1):
        s = line.strip()
        if inblock:
            if '*/' in line: inblock = False
            continue
        if s.startswith('/*'):
            if '*/' not in line: inblock = True
            continue
        if line.startswith('func '): infunc = True
        if line.startswith('}'): infunc = False
        if not infunc or s.startswith('//') or 'perTrace' in line or 'Log.' in line or 'logger.' in line or 'fmt.Print' in line or 'log.Print' in line or 'd_trace' in line:
            continue
        code = code_part(line)
        for pat, rep in OPS:
            for m in re.finditer(pat, code):
                res.append((ln, 'op %s -> %s' % (m.group(0), rep), m.start(), m.end(), rep))
        for m in LIT.finditer(code):
            t = m.group(1)
            v = int(t, 16) if t.startswith('0x') else int(t)
            nv = v + 1
            rep = ('0x%x' % nv) if t.startswith('0x') else str(nv)
            res.append((ln, 'literal %s -> %s' % (t, rep), m.start(), m.end(), rep))
    return res

def main():
    if sys.argv[1] == 'list':
        repo, n, seed = sys.argv[2], int(sys.argv[3]), int(sys.argv[4])
        rnd = random.Random(seed)
        out = []
        for f in sorted(OWNERS):
            c = candidates(os.path.join(repo, f))
            rnd.shuffle(c)
            for ln, what, a, b, rep in c[:n]:
                out.append({'file': f, 'line': ln, 'what': what, 'start': a, 'end': b, 'rep': rep, 'owners': OWNERS[f]})
        json.dump(out, sys.stdout, indent=0)
    else:
        repo, m = sys.argv[2], json.loads(sys.argv[3])
        p = os.path.join(repo, m['file'])
        lines = open(p).read().split('\n')
        l = lines[m['line'] - 1]
        lines[m['line'] - 1] = l[:m['start']] + m['rep'] + l[m['end']:]
        open(p, 'w').write('\n'.join(lines))
        print(l.strip(), ' ==> ', lines[m['line'] - 1].strip())

main()
