#!/usr/bin/env python3
"""Writes /verif/.build/overlay.json (and overlay_emu.json for the emulator build) from /repo's current tree."""
import json, os, re, sys
VD = os.environ.get("VERIF_DIR", "/verif"); R = os.environ.get("VERIF_REPO", "/repo")
B = os.environ.get("VERIF_BUILD", VD + "/.build"); V = VD + "/mc/overlay"
os.makedirs(B + "/ovl", exist_ok=True)
base = {R + "/src/free5gclib/nas/security/snow3g/zz_verif_export.go": V + "/snow3g/export.go"}
# tight capacity (C14 and every other user of the harness binary): the APER decoder's input buffers -- the caller's
# PDU and the copy made of every open-type value -- get cap == len, so that a read behind the end of the data that
# Go's allocator would otherwise hide in the spare capacity of a size class (value instead of panic, depending on
# the length alone) panics for every length. Transparent for code that stays inside len; skipped silently when
# the two anchor lines are no longer there (the tree is then checked exactly as it is).
ap = R + "/src/free5gclib/aper/aper.go"
try:
    s = open(ap).read()
    t = s.replace("\terr := parseField(v, pdOpenType, params)\n",
                  "\tpdOpenType.bytes = pdOpenType.bytes[:len(pdOpenType.bytes):len(pdOpenType.bytes)]\n\terr := parseField(v, pdOpenType, params)\n", 1)
    t = t.replace("\tpd := &perBitData{b, 0, 0}\n", "\tpd := &perBitData{b[:len(b):len(b)], 0, 0}\n", 1)
    if t != s:
        open(B + "/ovl/aper_tightcap.go", "w").write(t)
        base[ap] = B + "/ovl/aper_tightcap.go"
except OSError:
    pass
json.dump({"Replace": base}, open(B + "/overlay.json", "w"))
# emulator: "time" -> vtime in stg-utg.go and src/stgutg/*.go
emu = {R + "/src/tglib/vtime/vtime.go": V + "/vtime/vtime.go"}
files = [R + "/stg-utg.go"] + [R + "/src/stgutg/" + f for f in sorted(os.listdir(R + "/src/stgutg")) if f.endswith(".go") and not f.endswith("_test.go")]
n = 0
for f in files:
    s = open(f).read()
    t = re.sub(r'(?m)^(\s*)"time"\s*$', r'\1time "tglib/vtime"', s)
    if t != s:
        out = B + "/ovl/" + f.replace("/", "_")
        open(out, "w").write(t)
        emu[f] = out
        n += 1
json.dump({"Replace": emu}, open(B + "/overlay_emu.json", "w"))
json.dump({"Replace": {}}, open(B + "/overlay_none.json", "w"))
print("overlay: %d emulator files rewritten" % n)
