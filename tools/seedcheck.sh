#!/bin/bash
# seedcheck.sh <PROP> <k> <demo-dir-relative-to-repo> [tier] [extra check ids...]
# Confirms a sub-agent's seeded change in its scratch worktree (tests pass, demo fails with / passes without),
# then applies it to /repo, runs the property's check, and reverts. Records /verif/seeded/<PROP>-<k>/.
set -u
P=$1; K=$2; DDIR=$3; TIER=${4:-quick}
SRC=/tmp/seed/$P/out/$K; WT=/tmp/seed/$P/wt
export GOFLAGS= GOPROXY=off GOSUMDB=off GOTOOLCHAIN=local
DEMO=$(ls $SRC/demo*.go | head -1); DN=$(basename $DEMO)
case $DN in *_test.go) ;; *) DN=${DN%.go}_test.go;; esac
git -C $WT checkout -q -- . ; git -C $WT clean -fdq
res() { echo "$1"; }
git -C $WT apply $SRC/patch.diff || { echo "PATCH-DOES-NOT-APPLY"; exit 2; }
T=ok; for m in . src/free5gclib src/stgutg src/tglib; do (cd $WT/$m && go build ./... && go test -vet=off -count=1 ./... >/dev/null 2>&1) || T=FAIL; done
cp $DEMO $WT/$DDIR/zz_$DN
(cd $WT/$DDIR && go test -vet=off -count=1 . >/tmp/seed/$P/demo_with.log 2>&1); DW=$?
git -C $WT apply -R $SRC/patch.diff
(cd $WT/$DDIR && go test -vet=off -count=1 . >/tmp/seed/$P/demo_without.log 2>&1); DWO=$?
rm -f $WT/$DDIR/zz_$DN; git -C $WT checkout -q -- . ; git -C $WT clean -fdq
echo "suite_with_patch=$T demo_with_patch_exit=$DW demo_without_patch_exit=$DWO"
# now against /repo
git -C /repo apply $SRC/patch.diff || { echo "PATCH-DOES-NOT-APPLY-TO-REPO"; exit 2; }
cp /verif/evidence/$P.json /tmp/seed/$P.evidence.bak 2>/dev/null
OUT=$(cd /verif && ./check $P $TIER 2>&1); CE=$?
cp /verif/evidence/$P.json /tmp/seed/$P/evidence_with_change_$K.json 2>/dev/null
cp /tmp/seed/$P.evidence.bak /verif/evidence/$P.json 2>/dev/null
git -C /repo checkout -q -- . ; git -C /repo clean -fdq -e stgutgmain >/dev/null
echo "$OUT" | grep -E "^(VIOLATION|KNOWN|HARNESS|BUILD|SUMMARY)" | cut -c1-400; [ $CE = 2 ] && echo "$OUT" | tail -5 | cut -c1-600
echo "check_exit=$CE"
D=/verif/seeded/$P-$K; mkdir -p $D; cp $SRC/patch.diff $D/patch.diff; cp $DEMO $D/$DN; [ -f $SRC/README.md ] && cp $SRC/README.md $D/README.md
python3 - "$P" "$K" "$T" "$DW" "$DWO" "$CE" "$TIER" "$DDIR" "$D" <<'PY'
import json,sys
p,k,t,dw,dwo,ce,tier,ddir,d=sys.argv[1:]
viol=[]
json.dump({"property":p,"seed":int(k),"suite_passes_with_change":t=="ok","demo_fails_with_change":dw!="0","demo_passes_without_change":dwo=="0",
 "demo_dir":ddir,"check_cmd":"./check %s %s"%(p,tier),"check_exit_with_change":int(ce),"detected":ce=="1",
 "needs":"see README.md (written by the sub-agent that produced the change)",
 "ran":["git apply patch.diff in a scratch worktree; baseline suite; demo with and without the change","git -C /repo apply patch.diff; ./check %s %s; git -C /repo checkout -- ."%(p,tier)]},open(d+"/meta.json","w"),indent=1)
PY
