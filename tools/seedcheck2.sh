#!/bin/bash
# seedcheck2.sh <PROP> <k> [tier] [extra property ids whose checks should also be run]
# Confirms a sub-agent's seeded change /tmp/seed2/<PROP>/out/<k> in the agent's scratch worktree /tmp/seed2/<PROP>/wt
# (suite passes with it, demo fails with / passes without), then runs the property's check against that scratch tree
# (VERIF_REPO; /repo is not touched) and records /verif/seeded/<PROP>-<n>/ with the next free number n.
set -u
P=$1; K=$2; TIER=${3:-quick}; shift; shift; shift || true; EXTRA="$*"
S=${SEEDROOT:-/tmp/seed2}; SRC=$S/$P/out/$K; WT=$S/$P/${SEEDWTNAME:-wt}; V=/verif
export GOFLAGS= GOPROXY=off GOSUMDB=off GOTOOLCHAIN=local
[ -f $SRC/patch.diff ] || { echo "no patch in $SRC"; exit 2; }
DEMO=$(ls $SRC/*_test.go 2>/dev/null | head -1); [ -n "$DEMO" ] || { echo "no demo"; exit 2; }
PKG=$(grep -m1 '^package ' $DEMO | awk '{print $2}')
DDIR=$(python3 - "$SRC/README.md" "$PKG" "$WT" <<'PY'
import re,sys,os,glob
readme,pkg,wt=sys.argv[1:]
txt=open(readme).read() if os.path.exists(readme) else ""
cands=[]
for m in re.finditer(r'`?((?:\./)?(?:src/[\w/\-]+|\.))`?', txt):
    d=m.group(1).rstrip('/')
    if os.path.isdir(os.path.join(wt,d)): cands.append((d, txt.rfind('emo',0,m.start())))
def pk(d):
    for f in glob.glob(os.path.join(wt,d,'*.go')):
        if f.endswith('_test.go'): continue
        for l in open(f):
            if l.startswith('package '): return l.split()[1]
    return None
base=pkg[:-5] if pkg.endswith('_test') else pkg
good=[d for d,_ in cands if pk(d)==base]
if good:
    # most frequently named directory with the right package
    print(max(set(good), key=good.count)); sys.exit()
for root,ds,fs in os.walk(wt):
    if '.git' in root: continue
    rel=os.path.relpath(root,wt)
    if pk(rel)==base: print(rel); sys.exit()
print("")
PY
)
[ -n "$DDIR" ] || { echo "cannot find demo dir for package $PKG"; exit 2; }
git -C $WT checkout -q -- . ; git -C $WT clean -fdq
git -C $WT apply $SRC/patch.diff || { echo "PATCH-DOES-NOT-APPLY"; exit 2; }
T=ok; for m in . src/free5gclib src/stgutg src/tglib; do (cd $WT/$m && go build ./... && go test -vet=off -count=1 ./... >/dev/null 2>&1) || T=FAIL; done
RACE=""; grep -qi -- '-race' $SRC/README.md 2>/dev/null && [ "$P" = C20 ] && RACE="-race"
cp $DEMO $WT/$DDIR/zz_demo_test.go
(cd $WT/$DDIR && CGO_ENABLED=${RACE:+1} timeout 600 go test $RACE -vet=off -count=1 . >$S/$P/demo_with_$K.log 2>&1); DW=$?
git -C $WT apply -R $SRC/patch.diff
(cd $WT/$DDIR && CGO_ENABLED=${RACE:+1} timeout 600 go test $RACE -vet=off -count=1 . >$S/$P/demo_without_$K.log 2>&1); DWO=$?
rm -f $WT/$DDIR/zz_demo_test.go; git -C $WT checkout -q -- . ; git -C $WT clean -fdq
echo "seed $P/$K demo_dir=$DDIR suite_with_patch=$T demo_with_patch_exit=$DW demo_without_patch_exit=$DWO"
git -C $WT apply $SRC/patch.diff
RES=""; DET=0
for p in $P $EXTRA; do
  OUT=$(VERIF_REPO=$WT VERIF_BUILD=$S/$P/build VERIF_EVIDENCE=$S/$P/ev_$K $V/check $p $TIER 2>&1); CE=$?
  echo "$OUT" | grep -E "^(VIOLATION|KNOWN|HARNESS|BUILD|SUMMARY)" | cut -c1-260 | head -4; [ $CE = 2 ] && echo "$OUT" | tail -5 | cut -c1-600
  echo "check $p exit=$CE"; RES="$RES $p:$CE"; [ $CE = 1 ] && DET=1
done
git -C $WT checkout -q -- . ; git -C $WT clean -fdq; rm -rf $S/$P/build
N=1; while [ -e $V/seeded/$P-$N ]; do N=$((N+1)); done
[ -n "${SEED_SLOT:-}" ] && N=$SEED_SLOT
D=$V/seeded/$P-$N; mkdir -p $D; cp $SRC/patch.diff $D/patch.diff; cp $DEMO $D/demo_test.go; [ -f $SRC/README.md ] && cp $SRC/README.md $D/README.md
python3 - "$P" "$N" "$T" "$DW" "$DWO" "$RES" "$TIER" "$DDIR" "$D" "$DET" "$RACE" <<'PY'
import json,sys
p,n,t,dw,dwo,res,tier,ddir,d,det,race=sys.argv[1:]
json.dump({"property":p,"seed":int(n),"round":int(__import__("os").environ.get("SEEDROUND","2")),"suite_passes_with_change":t=="ok","demo_fails_with_change":dw!="0","demo_passes_without_change":dwo=="0",
 "demo_dir":ddir,"demo_cmd":"go test %s -vet=off -count=1 ." % race,"checks_run":{x.split(':')[0]:int(x.split(':')[1]) for x in res.split()},"tier":tier,"detected":det=="1",
 "needs":"see README.md (written by the sub-agent that produced the change, from the property text alone)",
 "ran":["in a scratch worktree: git apply patch.diff; baseline suite; demo with and without the change","VERIF_REPO=<scratch worktree with the change> ./check <ID> %s  (the scratch tree is checked, /repo is not modified)"%tier]},open(d+"/meta.json","w"),indent=1)
PY
echo "recorded $D detected=$DET"
