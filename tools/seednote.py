#!/usr/bin/env python3
"""seednote.py <seed-id> <text>: record that a seeded change was first missed and what was strengthened."""
import json, sys
p = '/verif/seeded/%s/meta.json' % sys.argv[1]
m = json.load(open(p)); m['first_missed'] = True; m['strengthening'] = sys.argv[2]
json.dump(m, open(p, 'w'), indent=1)
