#!/bin/bash
# seedmatrix.sh [-j N] [tier] [seed-id ...]
# Re-runs the recorded seeded changes (/verif/seeded/<ID>-<k>/patch.diff) against the checks, each in its own scratch
# worktree of /repo with its own build and evidence directories (so /repo, /verif/.build and /verif/evidence are untouched),
# N at a time.  Prints one line per seed: DETECTED / MISSED / BROKEN, and writes /tmp/sm/summary.txt.
set -u
J=4; [ "${1:-}" = "-j" ] && { J=$2; shift 2; }
TIER=${1:-quick}; shift || true
V=${VERIF_SNAP:-/verif}; S=/tmp/sm; mkdir -p $S
SEEDS="$*"; [ -z "$SEEDS" ] && SEEDS=$(cd $V/seeded && ls -d */ | tr -d /)
one() {
  id=$1; P=${id%%-*}; D=$S/$id
  rm -rf $D; mkdir -p $D
  flock /tmp/sm/.wtlock git -C /repo worktree add -f --detach $D/repo HEAD >/dev/null 2>&1 || { echo "$id BROKEN worktree"; return; }
  if ! git -C $D/repo apply $V/seeded/$id/patch.diff 2>$D/apply.err; then echo "$id BROKEN patch-does-not-apply"; else
    props="$P"; [ -f $V/seeded/$id/also.txt ] && props="$P $(cat $V/seeded/$id/also.txt)"
    res=""
    for p in $props; do
      VERIF_REPO=$D/repo VERIF_BUILD=$D/build VERIF_EVIDENCE=$D/evidence $V/check $p $TIER > $D/out.$p.txt 2>&1; ce=$?
      k=$(grep -c '^VIOLATION' $D/out.$p.txt)
      res="$res $p:exit=$ce:violations=$k"
    done
    case "$res" in *exit=1*) echo "$id DETECTED$res";; *exit=2*) echo "$id BROKEN$res";; *) echo "$id MISSED$res";; esac
  fi
  flock /tmp/sm/.wtlock git -C /repo worktree remove --force $D/repo >/dev/null 2>&1; rm -rf $D/build $D/repo
}
export -f one; export V S TIER
printf '%s\n' $SEEDS | xargs -P $J -I{} bash -c 'one {}' | tee $S/summary.txt
git -C /repo worktree prune
