#!/bin/bash
# mutrun.sh [-j N] <mutants.json> [outfile]
# For every mutant of tools/mutate.py: apply it in a scratch worktree of /repo, keep it only if the four modules build and
# the pinned suite passes, then run the checks that own the file (quick tier, scratch build / evidence directories) until
# one reports a violation.  One result line per mutant: KILLED <check> | SURVIVED | NOBUILD | SUITE-KILLED.
set -u
J=3; [ "${1:-}" = "-j" ] && { J=$2; shift 2; }
LIST=$1; OUT=${2:-/tmp/mut/results.txt}
V=${VERIF_SNAP:-/verif}; S=/tmp/mut; mkdir -p $S; : > $OUT
export GOFLAGS= GOPROXY=off GOSUMDB=off GOTOOLCHAIN=local
N=$(python3 -c "import json;print(len(json.load(open('$LIST'))))")
one() {
  i=$1
  # a free worker slot (its worktree is reused from mutant to mutant)
  D=""
  while [ -z "$D" ]; do
    for k in $(seq 0 $((J-1))); do
      exec {fd}>$S/slot$k
      if flock -n $fd; then D=$S/w$k; break; fi
      exec {fd}>&-
    done
    [ -z "$D" ] && sleep 1
  done
  m=$(python3 -c "import json;print(json.dumps(json.load(open('$LIST'))[$i]))")
  file=$(python3 -c "import json,sys;print(json.loads(sys.argv[1])['file'])" "$m")
  owners=$(python3 -c "import json,sys;print(' '.join(json.loads(sys.argv[1])['owners']))" "$m")
  what=$(python3 -c "import json,sys;d=json.loads(sys.argv[1]);print(d['file']+':'+str(d['line'])+' '+d['what'])" "$m")
  [ -d $D/repo ] || flock $S/.wtlock git -C /repo worktree add -f --detach $D/repo HEAD >/dev/null 2>&1
  git -C $D/repo checkout -q -- . ; git -C $D/repo clean -fdq
  change=$(python3 $V/tools/mutate.py apply $D/repo "$m")
  ok=1; for mod in . src/free5gclib src/stgutg src/tglib; do (cd $D/repo/$mod && go build ./... >/dev/null 2>&1) || ok=0; done
  if [ $ok = 0 ]; then echo "$i NOBUILD $what" >> $OUT; return; fi
  (cd $D/repo/src/free5gclib && go test -vet=off -count=1 ./... >/dev/null 2>&1) || { echo "$i SUITE-KILLED $what" >> $OUT; return; }
  res=SURVIVED
  for p in $owners; do
    VERIF_REPO=$D/repo VERIF_BUILD=$D/build VERIF_EVIDENCE=$D/evidence timeout 1500 $V/check $p quick > $D/out.txt 2>&1; ce=$?
    if [ $ce = 1 ]; then res="KILLED $p"; break; fi
    if [ $ce = 2 ] || [ $ce = 124 ]; then res="KILLED $p (harness: exit $ce)"; break; fi
  done
  echo "$i $res $what | $change" >> $OUT
}
export -f one; export V S LIST OUT J
seq 0 $((N-1)) | xargs -P $J -I{} bash -c 'one {}'
for k in $(seq 0 $((J-1))); do flock $S/.wtlock git -C /repo worktree remove --force $S/w$k/repo >/dev/null 2>&1; rm -rf $S/w$k; done
git -C /repo worktree prune
sort -n $OUT | awk '{print $2}' | sort | uniq -c
