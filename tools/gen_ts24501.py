#!/usr/bin/env python3
"""Transcribes the NAS message tables of the pinned library into mc/spec/ts24501.json (run once; the result is then
reviewed by hand against TS 24.501 clause 8 and frozen; checks never regenerate it)."""
import re, glob, json, sys, os
N = "/repo/src/free5gclib/nas"
shapes = {}
for f in glob.glob(N + "/nasType/NAS_*.go"):
    s = open(f).read()
    for m in re.finditer(r'type (\w+) struct \{([^}]*)\}', s):
        fields = [re.sub(r'\s+', ' ', l.strip()) for l in m.group(2).strip().split('\n') if l.strip()]
        shapes[m.group(1)] = fields
nasgo = open(N + "/nas.go").read()
msgtype = {m.group(1): int(m.group(2)) for m in re.finditer(r'MsgType(\w+)\s+uint8 = (\d+)', nasgo)}
gmm = re.search(r'type GmmMessage struct \{(.*?)\n\}', nasgo, re.S).group(1)
gsm = re.search(r'type GsmMessage struct \{(.*?)\n\}', nasgo, re.S).group(1)
gmm_names = re.findall(r'\*nasMessage\.(\w+)', gmm)
gsm_names = re.findall(r'\*nasMessage\.(\w+)', gsm)
out = []
for name in gmm_names + gsm_names:
    if name == "SecurityProtected5GSNASMessage":
        continue
    f = N + "/nasMessage/NAS_%s.go" % name
    s = open(f).read()
    st = re.search(r'type %s struct \{(.*?)\n\}' % name, s, re.S).group(1)
    consts = {m.group(1): int(m.group(2), 16) for m in re.finditer(r'%s(\w+)Type\s+uint8 = (0x[0-9A-Fa-f]+)' % name, s)}
    mand, opt = [], []
    for line in st.strip().split('\n'):
        line = line.strip()
        if not line: continue
        ptr = line.startswith('*')
        ie = line.split('.')[-1]
        sh = shapes[ie]
        def cap(x):
            m = re.search(r'\[(\d+)\]', x); return int(m.group(1)) if m else 0
        if not ptr:
            if sh == ['Octet uint8']: e = {"ie": ie, "fmt": "V", "len": 1}
            elif len(sh) == 1 and sh[0].startswith('Octet ['): e = {"ie": ie, "fmt": "V", "len": cap(sh[0])}
            elif sh[:2] == ['Iei uint8', 'Len uint8']: e = {"ie": ie, "fmt": "LV", "cap": cap(sh[2])}
            elif sh[:2] == ['Iei uint8', 'Len uint16']: e = {"ie": ie, "fmt": "LV-E", "cap": cap(sh[2])}
            elif sh[0] == 'Iei uint8' and sh[1] == 'Octet uint8': e = {"ie": ie, "fmt": "V", "len": 1}
            elif sh[0] == 'Iei uint8' and sh[1].startswith('Octet ['): e = {"ie": ie, "fmt": "V", "len": cap(sh[1])}
            else: raise SystemExit("mandatory shape? %s %s %s" % (name, ie, sh))
            mand.append(e)
        else:
            iei = consts.get(ie)
            if iei is None: raise SystemExit("no IEI for %s %s" % (name, ie))
            if sh == ['Octet uint8']: e = {"ie": ie, "iei": iei, "fmt": "TV-half"}
            elif sh == ['Iei uint8', 'Octet uint8']: e = {"ie": ie, "iei": iei, "fmt": "TV", "len": 1}
            elif len(sh) == 2 and sh[1].startswith('Octet ['): e = {"ie": ie, "iei": iei, "fmt": "TV", "len": cap(sh[1])}
            elif sh[:2] == ['Iei uint8', 'Len uint8']: e = {"ie": ie, "iei": iei, "fmt": "TLV", "cap": cap(sh[2]) if 'Octet' in sh[2] else 0, "fixed1": sh[2] == 'Octet uint8'}
            elif sh[:2] == ['Iei uint8', 'Len uint16']: e = {"ie": ie, "iei": iei, "fmt": "TLV-E", "cap": cap(sh[2]) if 'Octet' in sh[2] else 0}
            else: raise SystemExit("optional shape? %s %s %s" % (name, ie, sh))
            opt.append(e)
    out.append({"name": name, "epd": 0x7e if name in gmm_names else 0x2e, "msgType": msgtype[name], "mandatory": mand, "optional": opt})
json.dump({"messages": out, "notes": []}, open(sys.argv[1], "w"), indent=1)
print(len(out), "messages", sum(len(m["optional"]) for m in out), "optional IEs")
