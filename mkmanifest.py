#!/usr/bin/env python3
"""Regenerates /verif/MANIFEST.json from the table below (kept next to the checks so that the
manifest always lists exactly the properties that have a working check)."""
import json, sys

BASE_OFF = "for m in . src/free5gclib src/stgutg src/tglib; do (cd /repo/$m && GOFLAGS= GOPROXY=off GOSUMDB=off GOTOOLCHAIN=local go test -vet=off -count=1 ./...) || exit 1; done"

CHECKS = {
 "C07": dict(cat="exploration", sec="5.7", tech="exhaustive enumeration of the parameter product and of operation sequences (depth<=3) against an independent reference",
   text="Full product of algorithm x every length 1..N x all 32 bearers x both directions x COUNT and key alphabets, all call sequences of depth 2-3 and all 4x256 SNOW 3G table entries, each compared with an independent implementation written from TS 35.215/35.216/33.401; exhaustive within the stated alphabets, which is what a property over lengths/residues and call histories needs.",
   note="refcrypto (anchored on TS 35.207 set 1, RFC 4493, TS 33.401 C.1, SNOW 3G / UEA2 set 1); keys/COUNTs outside the alphabets not enumerated"),
 "C05": dict(cat="exploration", sec="5.5", tech="deviation-bounded exhaustive enumeration of input vectors (all <=2 deviations + full product of small dimensions) against an independent reference",
   text="Every input vector that departs from the default in at most two of eleven dimensions (structured 128-bit alphabets incl. one-hot sweeps, SQN^AK, AMF, 2-/3-digit MNC, SUPI length 5..15, 4x4 algorithm ids, OPc/OP-only) plus the full product of the small dimensions, each compared with RES*/K_AMF/K_NAS computed by an independent TS 35.206 + TS 33.501 Annex A implementation.",
   note="refcrypto Milenage anchored on TS 35.207 set 1; crypto/hmac, crypto/sha256, crypto/aes trusted; 128-bit values outside the alphabet not enumerated"),
 "C11": dict(cat="exploration", sec="5.11", tech="exhaustive enumeration of all PLMNs x MSIN lengths with an independent decoder as oracle",
   text="All 1000x1100 PLMNs x MSIN lengths 1..10: EncodeSuci decoded by an independent TS 24.501 9.11.3.4 decoder, PLMN octets compared with a reference encoder and with nasConvert.PlmnIDToNas; the PLMN placed in NG Setup / user-location IEs and the SUCI inside Registration/Deregistration Request checked on the built messages.",
   note="MSIN digits are pseudo-random from VERIF_SEED plus fixed patterns; PLMN and lengths exhaustive"),
 "C15": dict(cat="exploration", sec="5.15", tech="exhaustive enumeration of SQN pairs, AMF values and all single-bit/single-octet corruptions against an independent reference verdict",
   text="f1..f5*, OPc and AUTN generation over one-at-a-time sweeps of K/OP/RAND and all 65536 AMF values; Milenage_check over the full product of 8x8 network/UE SQNs and, for every valid AUTN, every single-bit and single-octet corruption (same for AUTS), and every f1..f5* case again in one sequential history in which the caller overwrites one buffer per argument in place, with the accept/resync/reject verdict computed by an independent TS 35.206 implementation.",
   note="refcrypto anchored on all eight values of TS 35.207 set 1"),
 "C16": dict(cat="exploration", sec="5.16", tech="exhaustive enumeration of every UE index 0..9999 for each initial-IMSI shape",
   text="CreateUE called as main() calls it for every index 0..9999 from 745 initial IMSIs (leading zeros, 2-/3-digit MNC, 11..15 digits, MSINs near exhaustion and around every power of ten of the MSIN so that a carry into every digit position occurs) ; pairwise distinctness of SUPIs and RAN-UE-NGAP-IDs, PLMN prefix, digit count, credentials and capability bits (all 4x4 algorithm pairs) checked on every context.",
   note="IMSI shapes are an alphabet, indices exhaustive"),
 "C17": dict(cat="exploration", sec="5.17", tech="exhaustive enumeration of whole input domains (2^24 AMF ids, 2^24 SDs, 1.1M PLMNs, all PCO lists <=3 units) with reference encoders and inverse checks",
   text="Whole-domain sweeps where the domain is finite (PLMN, AMF-ID, SST, SD; all 2^32 IPv4 addresses in thorough) and structured alphabets for addresses and PCO lists, each compared with the 3GPP encoding written independently and with inverse(conversion(x)) == x.",
   note="IPv4-mapped IPv6 addresses judged at the octet level; PCO ids/contents from a small alphabet"),
 "C03": dict(cat="exploration", sec="5.3", tech="deviation-bounded exhaustive enumeration of NGAP values (all single deviations per message type; pairs in thorough) against an independent X.691 encoder",
   text="For each of the ~100 NGAP message and transfer-container types the all-present default value and every value that moves <=1 (quick) / <=2 (thorough) leaves to another member of its boundary alphabet, plus a complete primitive sweep over synthetic types (every range size 1..257 and the large ranges, every bit offset), negative (out-of-constraint) values that must be refused, and fragmented lengths; every library encoding is compared byte for byte with an independent ALIGNED PER encoder driven by a frozen schema.",
   note="frozen schema = hand-corrected transcription of the pinned struct tags (mc/spec/NOTES.md); refper written from X.691; empty strings under a constrained length not generated"),
 "C04": dict(cat="exploration", sec="5.4", tech="same bounded exhaustive enumeration; oracle = round trip through the library and through an independent encoder's bytes",
   text="Same enumeration as C03 with two oracles: decode(encode(v)) equals v field by field, and the independent encoder's canonical bytes are accepted, decode to v and re-encode to the same bytes (the half the library cannot satisfy by being symmetric with itself).",
   note="normalisation: unused bits of a BIT STRING's last octet are masked before comparison (DESIGN.md 5.4); values outside the root of an extensible constraint are outside the claim"),
 "C13": dict(cat="exploration", sec="5.13", tech="exhaustive enumeration of argument vectors (default + every single deviation, products for the wrappers, NG-Setup-then-message histories) decoded by an independent reference decoder",
   text="All 14 build-and-encode wrappers and 50 library builders are called over boundary alphabets of every identifier, NAS-PDU lengths, addresses, gNB id lengths 22..32 and announced PLMNs (as a two-step history: NG Setup build, then the message); every encoding is decoded by the independent refper decoder and by the library, and class, procedure code, carried arguments, PLMN, mandatory IEs and criticalities are compared with values typed from TS 38.413; out-of-range identifiers must be refused.",
   note="procedure codes / IE ids / criticalities typed from the specification by hand; builders are test fixtures with package-level PLMN state (sequential sweep)"),
 "C14": dict(cat="exploration", sec="5.14", tech="exhaustive enumeration of all short octet strings and of all single mutations of reference encodings, each decoded in a resource-limited shard process",
   text="Every octet string of length <=2 (<=3 in thorough) and, for a reference encoding of every message type, every prefix, every single-octet substitution, every bit flip, adversarial two-octet length forms and every pair of octets up to 3 (thorough: 6) positions apart replaced by every pair from an adversarial alphabet are decoded by ngap.Decoder in shard processes with an address-space limit and a watchdog: no panic, allocation below 64 MiB per call, return within a 10 s horizon.",
   note="coverage-guided fuzzing (named in the property's quantifier) is another technique family and not used; allocation measured per batch and per call on suspicion"),
 "C06": dict(cat="model_checking", sec="5.6", tech="exhaustive enumeration of send histories (all operation sequences up to depth 3/4 from 7 starting COUNTs x 6 algorithm pairs) judged by an independent receiver",
   text="Every history of up to 3 (4 in thorough) sends over 19 operations (message x header type x new-context flag), from starting COUNTs placed just before every wrap, for all six algorithm pairs, plus 600- and 65538-send linear histories and the counter type over all 2^24 values; an independent receiver (refnas/refcrypto) must verify the MAC under COUNT n-1, find the payload ciphered only under header types 2/4 and recover exactly the submitted plain message.",
   note="refcrypto anchors as C07; two fixed key values (no key-dependent branch in the protection logic)"),
 "C10": dict(cat="model_checking", sec="5.10", tech="exhaustive enumeration of downlink histories (all sequences up to depth 3/4 incl. skipped and wrapping sequence numbers) produced by an independent AMF-side protector",
   text="An independent AMF side protects every history of up to 3 (4) downlink messages over 25 operations (message x header type 0..4 x COUNT step +1/+2/+200/+255) for six algorithm pairs and five starting COUNTs, plus 800-message runs; the UE's NASDecode / GetNasPdu must return a message that re-encodes to exactly the protected plain bytes and its DL COUNT must equal the AMF's.",
   note="downlink plain messages hand-encoded from TS 24.501 clause 8; UE and AMF start from the same COUNT"),
 "C12": dict(cat="exploration", sec="5.12", tech="exhaustive enumeration of QoS-rule lengths, optional-IE subsets and bit-rate octet counts, plus all short tails / prefixes / substitutions under a watchdog in shard processes",
   text="Accept messages built by hand per TS 24.501 8.3.2.1 (every QoS-rules length 0..1000/4000, all 2^9 optional-IE subsets in table order, IE length and value alphabets incl. octets equal to IEIs) and setup-request transfers encoded by the independent refper (every bit-rate octet count, TEID/address alphabets, IE subsets): the extractors must return exactly the encoded address/TEID/UPF; for termination every tail of <=4 octets over 16 symbols, every prefix and every single-octet substitution is run under a 10 s watchdog.",
   note="a panic on malformed input counts as termination (per the property); EstablishPDU's return values are covered by C02"),
 "C01": dict(cat="model_checking", sec="5.1", tech="explicit-state reference AMF model executed against the real emulator process; deviation-bounded exhaustive enumeration of configuration x AMF choices",
   text="The unmodified main() and procedures run as a process against an explicit-state reference AMF (written from TS 38.413/24.501/33.501 on independent codecs) over a socketpair; every configuration/AMF-choice vector with <=1 (quick) / <=2 (thorough) deviations is executed; the model must accept every uplink message in its state and end with every UE REGISTERED, the process must exit 0 with the banner. Every model trace is by construction validated against the implementation; states and transitions of the model visited are counted.",
   note="reference AMF follows the Open5GS flow; Sleep is a no-op in the emulator build (sound because the AMF is reactive and sequential; replayed with real sleeps in C19 thorough); hook: tag verif replaces the SCTP dial by an inherited socket"),
 "C02": dict(cat="model_checking", sec="5.2", tech="explicit-state reference AMF/SMF model executed against the real emulator process; full product of repetition counts, deviation-bounded assigned values, in-process return values",
   text="Full product of the five repetition counts in {0..2}^5 (quick) / {0..4}^5 (thorough) plus 16-/20-UE vectors and a 260-UE vector (520 and 300 in thorough: every per-run 8-bit counter wraps), all <=2-deviation vectors of network-assigned values, and in-process NGSetup+Register+EstablishPDU over the address/TEID product; the model checks prerequisites, identifiers, PSI consistency and range, distinct SUPIs, uplink COUNT uniqueness and MACs on every message and the final state of every UE.",
   note="AMF keeps the AMF-UE-NGAP-ID across a Service Request and does not check the hard-coded 5G-S-TMSI/ngKSI; the AMF re-activates the UE's session in the ICS request answering a Service Request"),
 "C18": dict(cat="exploration", sec="5.18", tech="deviation-bounded exhaustive enumeration of configuration files and of all argument vectors of length 0..3; wire values observed by the reference AMF",
   text="Configuration files are generated from typed values over an alphabet per documented key (24 keys; quoting styles, escapes, empty strings, numeric extremes, both key orders), all files with <=1 (quick) / <=2 (thorough) deviations; GetConfiguration must return the typed values key by key; the values observable on the wire (IMSI, PLMN, gNB id/length/name, K/OP/OPc, S-NSSAI, gnb_gtp_ip, repetition counts) are checked by the reference AMF in closed-system runs; all 259 argument vectors of length 0..3 over a 6-symbol alphabet are run at process level (banner, usage, messages reaching the AMF).",
   note="YAML expectations for quoted scalars; traffic mode cannot start in the sandbox, only its selection is observed"),
 "C19": dict(cat="fault_enumeration", sec="5.19", tech="exhaustive enumeration of fault points (every downlink message index x 10 fault kinds x count vectors) on the real process under a syscall monitor",
   text="For each count vector every downlink message index of the fault-free conversation is combined with {peer closes instead, ff ff ff, 00, truncated message, 2047/2048/4096 octets of ff (around the emulator's read buffer), the message with its PDU choice index destroyed, with its outer length determinant beyond the end, with its IE count 256 too large}; the real process runs under strace, whose sendmsg/recvmsg history is the ground truth of what the emulator consumed; once it consumed the fault it must exit non-zero without the banner and without sending again, and it must always terminate within the horizon.",
   note="strace as monitor; the message after Registration Complete is exempt for garbage (per the property); faulty octets that the reference codec still decodes are out of scope; a run that outlives the horizon has its whole process group killed; thorough replays conversations with real sleeps to validate the time shim"),
 "C20": dict(cat="model_checking", sec="5.20", tech="controlled cooperative scheduler over the instrumented real code: exhaustive enumeration of schedules up to a preemption bound, plus a separate free-running -race pass",
   text="The repository packages are rebuilt through an overlay that inserts a yield in front of every statement that reads or writes a package-level variable mutated at run time (found by a two-pass AST analysis of the current tree: assignments also through index/field/pointer, inc/dec, address-of, method calls on visible variables, copy/append destinations, cross-package), and every statement that uses a local alias of such storage (intra-procedural taint: values loaded from a shared table / cache / pool, results of functions that return them), a coarse yield at the entry of every function of the instrumented packages, and replaces sync by a scheduler-aware version (Mutex/RWMutex/Once, and a Pool that shares as much as sync.Pool's contract allows); for pairs of 21 operation kinds (NEA/NIA short and 300-octet messages, NAS protect/unprotect, NGAP and NAS codecs, NAS constructors, NGAP builders, key derivation with OPc and OP only, Milenage+KDF, SUCI/CreateUE/capability, identifier conversions; each thread on its own UE context, keys and messages, different message types per thread; quick: every operation against itself, every pair inside a family sharing code, every pair involving a codec; thorough: all 231 pairs) every schedule with <=2 preemptions (quick) / <=3 and triples (thorough) over the first 8/16 dynamic instances of each statement site and the first 1/2 of each function entry per thread is executed and each thread's output compared with the sequential one; deadlocks are violations. Because cooperative hand-offs hide races from the detector, the same bodies also run free on 2/8/64 goroutines in a binary built with -race.",
   note="only sequentially consistent interleavings at the inserted points; the -race pass is a dynamic detector (not an enumeration); G up to 64 applies to the free-running pass only"),
 "C08": dict(cat="exploration", sec="5.8", tech="exhaustive enumeration of optional-IE subsets (all 2^k for k<=17; every k in thorough), IE lengths, contents and wire orders per message type, with round-trip oracles",
   text="For each of the 44 plain message types of the frozen TS 24.501 table every optional-IE subset (all 2^k for k<=17, none/all/singles/all-but-one/pairs/triples above; thorough: all 2^k for every message, 18.4 M cases), every IE at boundary lengths within its capacity with three contents alone, with its neighbours and next to every other single IE, mandatory LV/LV-E lengths, every permutation of every choice of up to four optional IEs and every adjacent transposition on the wire; decode(encode(m)) == m, encode(decode(canonical bytes)) == bytes, any order decodes to the same message, and all 256 message types x EPDs: unknown types are errors.",
   note="frozen table = reviewed transcription (mc/spec/ts24501.json notes); IE values are opaque octets within capacity; SecurityProtected5GSNASMessage (an envelope, not a plain message) is covered by C06/C10"),
 "C09": dict(cat="exploration", sec="5.9", tech="exhaustive enumeration over all (message, optional IE) pairs and constructor argument alphabets against a table-driven independent encoder/parser",
   text="Same enumeration as C08 judged against an independent layout engine driven by the frozen TS 24.501 table: library bytes must equal the table layout (message type octet, mandatory order and widths, IEI/format/length width of all 159 optional IEs) and table-built bytes must decode to the intended values; the emulator's own NAS constructors (registration, authentication, security mode, UL NAS transport with every PSI 0..255, service, deregistration...) are parsed by the independent parser and compared with the arguments.",
   note="frozen table reviewed against TS 24.501 clause 8 by hand; release differences kept and listed"),
}

NOT_YET = {}

def main():
    ids = ["C%02d" % i for i in range(1, 21)]
    checks = []
    for i in ids:
        if i not in CHECKS: continue
        c = CHECKS[i]
        checks.append({
            "property_id": i,
            "quick_cmd": "./check %s quick" % i,
            "thorough_cmd": "./check %s thorough" % i,
            "evidence_file": "/verif/evidence/%s.json" % i,
            "replay_cmd_template": "./check %s quick --replay {path}" % i,
            "engine": c.get("engine", "mc"),
            "level_claimed": {"category": c["cat"], "text": c["text"], "design_ref": "DESIGN.md " + c["sec"]},
            "level_note": c["note"],
            "technique": c["tech"],
        })
    na = [{"property_id": i, "reason": NOT_YET.get(i, "check not built yet in this session (work in progress, see DESIGN.md section 10); no verdict is claimed")} for i in ids if i not in CHECKS]
    m = {
        "version": 1,
        "setup_cmd": "./setup.sh",
        "hooks": {"guard": "verif", "enable": "go build -tags verif (through /verif/mc/go.work, which uses the four /repo modules)",
                  "baseline_off_cmd": BASE_OFF, "source_commits": HOOK_COMMITS, "add_only": True},
        "engines": [{"name": "mc", "path": "/verif/mc", "serves_properties": [c["property_id"] for c in checks],
                     "kind_free_text": "hand-written Go explorer: deviation-bounded exhaustive enumeration of choice sequences / operation histories / fault points / schedules over the real code, with independent reference models as oracles"}],
        "checks": checks,
        "not_applicable": na,
        "notes": "See DESIGN.md. KNOWN_FINDINGS.txt lists repaired defects (fix: commits) and recorded findings.",
    }
    json.dump(m, open("/verif/MANIFEST.json", "w"), indent=1)
    print("checks:", len(checks), "not_applicable:", len(na))

HOOK_COMMITS = ["0711bfcbaf85eb9d30e2f222488e58ef5879da27"]
if __name__ == "__main__":
    main()
