#!/usr/bin/env python3
"""Regenerates /verif/MANIFEST.json from the table below (kept next to the checks so that the
manifest always lists exactly the properties that have a working check)."""
import json, sys

BASE_OFF = "for m in . src/free5gclib src/stgutg src/tglib; do (cd /repo/$m && GOFLAGS= GOPROXY=off GOSUMDB=off GOTOOLCHAIN=local go test -vet=off -count=1 ./...) || exit 1; done"

CHECKS = {
 "C07": dict(cat="exploration", sec="5.7", tech="exhaustive enumeration of the parameter product and of operation sequences (depth<=3) against an independent reference",
   text="Full product of algorithm x every length 1..N x all 32 bearers x both directions x COUNT and key alphabets, all call sequences of depth 2-3 and all 4x256 SNOW 3G table entries, each compared with an independent implementation written from TS 35.215/35.216/33.401; exhaustive within the stated alphabets, which is what a property over lengths/residues and call histories needs.",
   note="refcrypto (anchored on TS 35.207 set 1, RFC 4493, TS 33.401 C.1, SNOW 3G / UEA2 set 1); keys/COUNTs outside the alphabets not enumerated"),
}

NOT_YET = {}

def main():
    ids = ["C%02d" % i for i in range(1, 21)]
    checks = []
    for i in ids:
        if i not in CHECKS: continue
        c = CHECKS[i]
        checks.append({
            "property_id": i,
            "quick_cmd": "./check %s quick" % i,
            "thorough_cmd": "./check %s thorough" % i,
            "evidence_file": "/verif/evidence/%s.json" % i,
            "replay_cmd_template": "./check %s quick --replay {path}" % i,
            "engine": c.get("engine", "mc"),
            "level_claimed": {"category": c["cat"], "text": c["text"], "design_ref": "DESIGN.md " + c["sec"]},
            "level_note": c["note"],
            "technique": c["tech"],
        })
    na = [{"property_id": i, "reason": NOT_YET.get(i, "check not built yet in this session (work in progress, see DESIGN.md section 10); no verdict is claimed")} for i in ids if i not in CHECKS]
    m = {
        "version": 1,
        "setup_cmd": "./setup.sh",
        "hooks": {"guard": "verif", "enable": "go build -tags verif (through /verif/mc/go.work, which uses the four /repo modules)",
                  "baseline_off_cmd": BASE_OFF, "source_commits": HOOK_COMMITS, "add_only": True},
        "engines": [{"name": "mc", "path": "/verif/mc", "serves_properties": [c["property_id"] for c in checks],
                     "kind_free_text": "hand-written Go explorer: deviation-bounded exhaustive enumeration of choice sequences / operation histories / fault points / schedules over the real code, with independent reference models as oracles"}],
        "checks": checks,
        "not_applicable": na,
        "notes": "See DESIGN.md. KNOWN_FINDINGS.txt lists repaired defects (fix: commits) and recorded findings.",
    }
    json.dump(m, open("/verif/MANIFEST.json", "w"), indent=1)
    print("checks:", len(checks), "not_applicable:", len(na))

HOOK_COMMITS = []
if __name__ == "__main__":
    main()
