#!/bin/bash
# Offline setup after a fresh restore: build the harness once so that the Go build cache is warm.
set -u
export GOFLAGS= GOPROXY=off GOSUMDB=off GOTOOLCHAIN=local CGO_ENABLED=0
mkdir -p /verif/.build/bin /verif/evidence
cd /verif/mc && cp -f /repo/go.work.sum go.work.sum
go build -tags verif -o /verif/.build/bin/mcheck ./cmd/mcheck || exit 1
echo setup ok
