#!/bin/bash
# Offline setup after a fresh restore: build the harness once so that the Go build cache is warm.
set -u
export GOFLAGS= GOPROXY=off GOSUMDB=off GOTOOLCHAIN=local CGO_ENABLED=0
V="$(cd "$(dirname "$0")" && pwd)"; R="${VERIF_REPO:-/repo}"; B="${VERIF_BUILD:-$V/.build}"
mkdir -p $B/bin $V/evidence
printf 'go 1.21.4\n\nuse (\n\t%s\n\t%s\n\t%s\n\t%s\n\t%s\n)\n' "$V/mc" "$R" "$R/src/free5gclib" "$R/src/stgutg" "$R/src/tglib" > $B/go.work
cp -f $R/go.work.sum $B/go.work.sum
export GOWORK=$B/go.work
cd $V/mc && go build -tags verif -o $B/bin/mcheck ./cmd/mcheck || exit 1
echo setup ok
