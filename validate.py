#!/usr/bin/env python3-vt
import json, jsonschema, glob, sys
ok = True
m = json.load(open('/verif/MANIFEST.json'))
jsonschema.validate(m, json.load(open('/root/.vp/MANIFEST.schema.json')))
es = json.load(open('/root/.vp/EVIDENCE.schema.json'))
for c in m['checks']:
    try:
        e = json.load(open(c['evidence_file']))
        jsonschema.validate(e, es)
        assert e['level'] == c['level_claimed']['category'], "level mismatch"
        print(c['property_id'], 'ok', e['tier'], e['coverage'].get('evaluations'), e['coverage'].get('distinct_nontrivial'), 'exh=%s' % e['coverage'].get('exhaustive'), 'viol=%s' % e.get('violations'), '%.0fs' % e['wall_s'])
    except Exception as ex:
        ok = False
        print(c['property_id'], 'BAD', str(ex)[:300])
ids = {c['property_id'] for c in m['checks']} | {n['property_id'] for n in m.get('not_applicable', [])}
assert ids == {"C%02d" % i for i in range(1, 21)}, ids
sys.exit(0 if ok else 1)
